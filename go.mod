module verif

go 1.23

require (
	github.com/awalterschulze/gographviz v0.0.0-20190522210029-fa59802746ab
	github.com/modernizing/coca v0.0.0
	golang.org/x/tools v0.29.0
)

require (
	github.com/yourbasic/radix v0.0.0-20180308122924-cbe1cc82e907 // indirect
	golang.org/x/mod v0.22.0 // indirect
	golang.org/x/sync v0.10.0 // indirect
)

replace github.com/modernizing/coca => /repo
