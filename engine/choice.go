// Package engine: hand-written bounded exhaustive explorers (DESIGN.md section 2).
package engine

import (
	"fmt"
	"sort"
	"strings"
)

// C is the chooser handed to generators. A generator is a pure function of the choice vector: it replays
// the prefix it is given and takes alternative 0 (the default, simplest one) at every later choice point.
type C struct {
	prefix  []int
	Choices []int
	Ns      []int
	Labels  []string
	tags    map[string]bool
	Tier    string
}

func NewC(prefix []int, tier string) *C {
	return &C{prefix: prefix, tags: map[string]bool{}, Tier: tier}
}

// Choose returns an alternative in [0,n). Out-of-range replay is a hard harness error.
func (c *C) Choose(n int, label string) int {
	if n <= 0 {
		panic("engine: Choose with n<=0 at " + label)
	}
	i := len(c.Choices)
	v := 0
	if i < len(c.prefix) {
		v = c.prefix[i]
		if v < 0 || v >= n {
			panic(fmt.Sprintf("engine: replay divergence at point %d (%s): choice %d out of range %d", i, label, v, n))
		}
	}
	c.Choices = append(c.Choices, v)
	c.Ns = append(c.Ns, n)
	c.Labels = append(c.Labels, label)
	return v
}

func (c *C) Bool(label string) bool { return c.Choose(2, label) == 1 }

// Quick reports whether the quick tier is being explored (generators may widen menus in thorough).
func (c *C) Quick() bool { return c.Tier != "thorough" }

// Tag records a semantic feature of the generated case (used for failure classes).
func (c *C) Tag(t string) { c.tags[t] = true }

func (c *C) Tags() []string {
	var r []string
	for t := range c.tags {
		r = append(r, t)
	}
	sort.Strings(r)
	return r
}

// Pick chooses one of the options (first = default).
func Pick[T any](c *C, label string, opts ...T) T {
	return opts[c.Choose(len(opts), label)]
}

// PickTag is Pick over strings that also tags non-default picks as label=value.
func PickTag(c *C, label string, opts ...string) string {
	i := c.Choose(len(opts), label)
	if i != 0 {
		c.Tag(label + "=" + opts[i])
	}
	return opts[i]
}

func (c *C) Deviations() int {
	n := 0
	for _, v := range c.Choices {
		if v != 0 {
			n++
		}
	}
	return n
}

// Describe renders the non-default choices, for samples and replay files.
func (c *C) Describe() string {
	var p []string
	for i, v := range c.Choices {
		if v != 0 {
			p = append(p, fmt.Sprintf("%s=%d/%d", c.Labels[i], v, c.Ns[i]))
		}
	}
	if len(p) == 0 {
		return "(all defaults)"
	}
	return strings.Join(p, " ")
}

func devs(v []int) int {
	n := 0
	for _, x := range v {
		if x != 0 {
			n++
		}
	}
	return n
}

// Walk enumerates every choice vector of gen with at most k non-default choices (k<0: no bound), calling
// visit with the chooser after generation. Choice points that only exist after a deviation are discovered
// dynamically. visit's return value false aborts the walk. Returns (nodes, edges).
func Walk(tier string, k int, gen func(c *C) interface{}, visit func(c *C, cs interface{}) bool) (nodes, edges int, completed bool) {
	completed = true
	var rec func(prefix []int) bool
	rec = func(prefix []int) bool {
		c := NewC(prefix, tier)
		cs := gen(c)
		nodes++
		if !visit(c, cs) {
			completed = false
			return false
		}
		base := devs(c.Choices[:len(prefix)])
		// every later point currently holds 0; a child deviates at exactly one later point
		if k >= 0 && base+1 > k {
			return true
		}
		for i := len(prefix); i < len(c.Choices); i++ {
			for alt := 1; alt < c.Ns[i]; alt++ {
				child := make([]int, i+1)
				copy(child, c.Choices[:i])
				child[i] = alt
				edges++
				if !rec(child) {
					return false
				}
			}
		}
		return true
	}
	rec(nil)
	return
}
