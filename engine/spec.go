package engine

import (
	"crypto/sha256"
	"encoding/hex"
	"encoding/json"
	"fmt"
	"sort"
	"strings"
)

// Violation is one way in which one execution disagreed with the reference model.
type Violation struct {
	Clause   string      `json:"clause"`   // which clause of the statement
	Kind     string      `json:"kind"`     // diff kind, as specific as the oracle can make it
	Detail   string      `json:"detail"`   // human-readable
	Expected interface{} `json:"expected,omitempty"`
	Observed interface{} `json:"observed,omitempty"`
}

// Result of executing one case against the real implementation.
type Result struct {
	Violations []Violation `json:"violations,omitempty"`
	Outcome    string      `json:"outcome"`    // canonical observation (hashed: distinct_outcomes, determinism gate)
	InputKey   string      `json:"input_key"`  // canonical input content (hashed: distinct inputs)
	Nontrivial bool        `json:"nontrivial"` // exercises at least one feature the property talks about
	Input      interface{} `json:"input,omitempty"` // materialised input, for samples / replay files
	Skipped    string      `json:"skipped,omitempty"` // generator produced an invalid case (counted, never a verdict)
}

// Case is a generated case: running it executes the real code and compares with the reference model.
type Case func() Result

// Section is one exploration: a generator with its deviation bounds per tier (-1 = full product).
type Section struct {
	Name     string
	KQuick   int
	KThor    int
	Gen      func(c *C) Case
	Stateful bool // the case itself is a history; it manages resets on its own (X2-style)
}

type Spec struct {
	ID          string
	Title       string
	Rule        string   // how cases are enumerated and what makes one non-trivial
	Assumptions []string
	Sections    []Section
	// Custom replaces the generic X1 driver entirely (X2 / X3 explorers).
	Custom func(ctx *Ctx) *Report
	// Extra lets a spec add measured keys to the evidence coverage.
	Extra func(tier string) map[string]interface{}
}

var Registry = map[string]*Spec{}

// ExtraCmds: auxiliary subcommands of the mc binary registered by checks (child processes).
var ExtraCmds = map[string]func(args []string){}

func Register(s *Spec) { Registry[s.ID] = s }

func IDs() []string {
	var r []string
	for k := range Registry {
		r = append(r, k)
	}
	sort.Strings(r)
	return r
}

// Reset is installed by the verif-tagged build: re-initialises all package-level state of coca.
var Reset func()

// StateDump renders hidden package-level state (verif-tagged build only).
var StateDump func(filters ...string) string

func Hash(s string) string {
	h := sha256.Sum256([]byte(s))
	return hex.EncodeToString(h[:8])
}

func JSON(v interface{}) string {
	b, err := json.Marshal(v)
	if err != nil {
		return fmt.Sprintf("<unmarshalable: %v>", err)
	}
	return string(b)
}

// ClassKey identifies a failure class.
func (v Violation) ClassKey() string { return v.Clause + "/" + v.Kind }

// V is a helper to build a violation.
func V(clause, kind, format string, a ...interface{}) Violation {
	return Violation{Clause: clause, Kind: kind, Detail: fmt.Sprintf(format, a...)}
}

func trunc(s string, n int) string {
	if len(s) > n {
		return s[:n] + "…"
	}
	return s
}

func vecString(v []int) string {
	p := make([]string, len(v))
	for i, x := range v {
		p[i] = fmt.Sprint(x)
	}
	return strings.Join(p, ",")
}

func ParseVec(s string) []int {
	if s == "" || s == "-" {
		return nil
	}
	var r []int
	for _, p := range strings.Split(s, ",") {
		var x int
		fmt.Sscan(p, &x)
		r = append(r, x)
	}
	return r
}
