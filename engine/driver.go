package engine

import (
	"bufio"
	"encoding/json"
	"fmt"
	"os"
	"os/exec"
	"path/filepath"
	"runtime"
	"runtime/debug"
	"sort"
	"strconv"
	"strings"
	"sync"
	"time"
)

// ---------------------------------------------------------------------------------------------------
// known findings

type Finding struct {
	Property string
	Class    string   // clause/kind
	Tags     []string // tags that must all be present in the violating case
	What     string
	Line     string
}

func LoadFindings(path, property string) []Finding {
	f, err := os.Open(path)
	if err != nil {
		return nil
	}
	defer f.Close()
	var r []Finding
	sc := bufio.NewScanner(f)
	sc.Buffer(make([]byte, 1<<20), 1<<20)
	for sc.Scan() {
		line := strings.TrimSpace(sc.Text())
		if !strings.HasPrefix(line, "finding:") {
			continue
		}
		body := strings.TrimSpace(strings.TrimPrefix(line, "finding:"))
		what := ""
		if i := strings.Index(body, " -- "); i >= 0 {
			what = strings.TrimSpace(body[i+4:])
			body = body[:i]
		}
		fd := Finding{What: what, Line: line}
		for _, kv := range strings.Fields(body) {
			switch {
			case strings.HasPrefix(kv, "property="):
				fd.Property = kv[len("property="):]
			case strings.HasPrefix(kv, "class="):
				fd.Class = kv[len("class="):]
			case strings.HasPrefix(kv, "tags="):
				if t := kv[len("tags="):]; t != "" {
					fd.Tags = strings.Split(t, ",")
				}
			}
		}
		if fd.Property == property {
			r = append(r, fd)
		}
	}
	return r
}

func (f Finding) Matches(v Violation, tags []string) bool {
	if f.Class != v.ClassKey() {
		return false
	}
	for _, t := range f.Tags {
		ok := false
		for _, x := range tags {
			if x == t {
				ok = true
			}
		}
		if !ok {
			return false
		}
	}
	return true
}

// ---------------------------------------------------------------------------------------------------
// worker

type CaseRef struct {
	Section int      `json:"section"`
	Vec     []int    `json:"vec"`
	Devs    int      `json:"devs"`
	Desc    string   `json:"desc"`
	Tags    []string `json:"tags,omitempty"`
}

type Group struct {
	Key       string    `json:"key"` // "F<i>" for known finding i, "U:<class>" for unexplained
	Count     int       `json:"count"`
	Min       CaseRef   `json:"min"`
	Violation Violation `json:"violation"`
	Outcome   string    `json:"outcome"`
}

type Sample struct {
	Case    CaseRef     `json:"case"`
	Input   interface{} `json:"input,omitempty"`
	Outcome string      `json:"outcome,omitempty"`
}

type FirstCase struct {
	Ref     CaseRef `json:"ref"`
	Outcome string  `json:"outcome"`
}

type WorkerOut struct {
	Evaluations    int                `json:"evaluations"`
	Nodes          int                `json:"nodes"`
	Edges          int                `json:"edges"`
	Skipped        int                `json:"skipped"`
	SkipReasons    map[string]int     `json:"skip_reasons,omitempty"`
	Inputs         map[string]bool    `json:"inputs"` // hash -> nontrivial
	Outcomes       map[string]bool    `json:"outcomes"`
	Groups         map[string]*Group  `json:"groups"`
	Samples        []Sample           `json:"samples"`
	First          []FirstCase        `json:"first"`
	StageCompleted int                `json:"stage_completed"` // largest deviation stage fully explored
	MaxStage       int                `json:"max_stage"`
	DeadlineHit    bool               `json:"deadline_hit"`
	HarnessErrors  []string           `json:"harness_errors,omitempty"`
	PerSection     map[string]int     `json:"per_section"`
}

func less(a, b CaseRef) bool {
	if a.Devs != b.Devs {
		return a.Devs < b.Devs
	}
	if len(a.Vec) != len(b.Vec) {
		return len(a.Vec) < len(b.Vec)
	}
	if a.Section != b.Section {
		return a.Section < b.Section
	}
	return vecString(a.Vec) < vecString(b.Vec)
}

// RunCase executes one case with panic capture. A panic inside /verif code is a harness error; a panic
// inside the code under test is a violation (clause "panic").
func RunCase(cs Case) (res Result, harnessErr string) {
	defer func() {
		if r := recover(); r != nil {
			st := string(debug.Stack())
			fn, inCoca := topFrame(st)
			if !inCoca {
				harnessErr = fmt.Sprintf("harness panic: %v\n%s", r, st)
				return
			}
			res.Violations = append(res.Violations, Violation{Clause: "panic", Kind: fn + ":" + panicClass(fmt.Sprint(r)),
				Detail: fmt.Sprintf("panic in %s: %v", fn, r)})
			res.Outcome = "PANIC " + fn
			res.Nontrivial = true
		}
	}()
	res = cs()
	return
}

// topFrame finds the first non-runtime frame below the panic; reports whether it belongs to coca (or a
// dependency of it) rather than to the harness.
func topFrame(stack string) (string, bool) {
	lines := strings.Split(stack, "\n")
	seenPanic := false
	for _, l := range lines {
		if strings.HasPrefix(l, "panic(") {
			seenPanic = true
			continue
		}
		if !seenPanic || strings.HasPrefix(l, "\t") || strings.HasPrefix(l, "runtime.") || strings.HasPrefix(l, "runtime/") {
			continue
		}
		fn := l
		if i := strings.LastIndex(fn, "("); i > 0 {
			fn = fn[:i]
		}
		if strings.HasPrefix(fn, "verif/") || strings.HasPrefix(fn, "main.") {
			return fn, false
		}
		// go up to first coca frame for the name
		return PanicFrame(lines), true
	}
	return "?", false
}

// PanicFrame returns the first frame that lies in github.com/modernizing/coca (short name), else the first
// non-runtime frame.
func PanicFrame(lines []string) string {
	seenPanic := false
	first := ""
	for _, l := range lines {
		if strings.HasPrefix(l, "panic(") {
			seenPanic = true
			continue
		}
		if !seenPanic || strings.HasPrefix(l, "\t") || strings.HasPrefix(l, "runtime.") || strings.HasPrefix(l, "runtime/") || strings.HasPrefix(l, "goroutine") || l == "" {
			continue
		}
		fn := l
		if i := strings.LastIndex(fn, "("); i > 0 {
			fn = fn[:i]
		}
		if first == "" {
			first = fn
		}
		if strings.HasPrefix(fn, "verif/") || strings.HasPrefix(fn, "main.") {
			break
		}
		if strings.Contains(fn, "github.com/modernizing/coca/") {
			fn = strings.TrimPrefix(fn, "github.com/modernizing/coca/")
			if i := strings.LastIndex(fn, "/"); i >= 0 {
				fn = fn[i+1:]
			}
			return fn
		}
	}
	if i := strings.LastIndex(first, "/"); i >= 0 {
		first = first[i+1:]
	}
	return first
}

// PanicClass normalises a panic message into a failure-class component.
func PanicClass(msg string) string { return panicClass(msg) }

func panicClass(msg string) string {
	// drop numbers so that "index out of range [3] with length 3" and "[5] with length 5" fall together
	var b strings.Builder
	for _, r := range msg {
		if r >= '0' && r <= '9' {
			continue
		}
		b.WriteRune(r)
	}
	s := strings.Join(strings.Fields(b.String()), "_")
	if len(s) > 60 {
		s = s[:60]
	}
	return s
}

type Ctx struct {
	Spec      *Spec
	Tier      string
	Shard, W  int
	Deadline  time.Time
	Findings  []Finding
	Seed      int64
	WorkDir   string
	Self      string // path of this binary
}

func sectionK(s Section, tier string) int {
	if tier == "thorough" {
		return s.KThor
	}
	return s.KQuick
}

// Worker explores this shard's share of all sections, stage by stage (0 deviations, 1, 2, ...).
func Worker(ctx *Ctx, skip map[string]bool, progress func(ref CaseRef)) *WorkerOut {
	out := &WorkerOut{Inputs: map[string]bool{}, Outcomes: map[string]bool{}, Groups: map[string]*Group{},
		SkipReasons: map[string]int{}, PerSection: map[string]int{}, StageCompleted: -1}
	spec := ctx.Spec
	maxStage := 0
	for _, s := range spec.Sections {
		if k := sectionK(s, ctx.Tier); k > maxStage {
			maxStage = k
		}
	}
	out.MaxStage = maxStage
	leaf := 0
	sampleEvery := 1
	for stage := 0; stage <= maxStage; stage++ {
		for si, s := range spec.Sections {
			k := sectionK(s, ctx.Tier)
			full := k < 0
			if full && stage != 0 {
				continue
			}
			if !full && stage > k {
				continue
			}
			bound := stage
			if full {
				bound = -1
			}
			nodes, edges, completed := Walk(ctx.Tier, bound, func(c *C) interface{} { return s.Gen(c) }, func(c *C, csi interface{}) bool {
				if !full && c.Deviations() != stage {
					return true
				}
				leaf++
				if (leaf+int(ctx.Seed))%ctx.W != ctx.Shard {
					return true
				}
				if time.Now().After(ctx.Deadline) {
					out.DeadlineHit = true
					return false
				}
				ref := CaseRef{Section: si, Vec: append([]int{}, c.Choices...), Devs: c.Deviations(), Desc: s.Name + ": " + c.Describe(), Tags: c.Tags()}
				if skip[fmt.Sprintf("%d:%s", si, vecString(ref.Vec))] {
					return true
				}
				if progress != nil {
					progress(ref)
				}
				if Reset != nil && !s.Stateful {
					Reset()
				}
				res, herr := RunCase(csi.(Case))
				if herr != "" {
					if len(out.HarnessErrors) < 5 {
						out.HarnessErrors = append(out.HarnessErrors, ref.Desc+" ["+vecString(ref.Vec)+"]: "+herr)
					}
					return true
				}
				if res.Skipped != "" {
					out.Skipped++
					out.SkipReasons[trunc(res.Skipped, 80)]++
					return true
				}
				out.Evaluations++
				out.PerSection[s.Name]++
				ih := Hash(res.InputKey)
				out.Inputs[ih] = out.Inputs[ih] || res.Nontrivial
				oh := Hash(res.Outcome)
				out.Outcomes[oh] = true
				if len(out.First) < 6 && stage <= 1 {
					out.First = append(out.First, FirstCase{Ref: ref, Outcome: oh})
				}
				if out.Evaluations%sampleEvery == 0 && len(out.Samples) < 4 {
					out.Samples = append(out.Samples, Sample{Case: ref, Input: res.Input, Outcome: trunc(res.Outcome, 600)})
					sampleEvery *= 7
				}
				for _, v := range res.Violations {
					key := "U:" + v.ClassKey()
					for fi, f := range ctx.Findings {
						if f.Matches(v, ref.Tags) {
							key = "F" + strconv.Itoa(fi)
							break
						}
					}
					g := out.Groups[key]
					if g == nil {
						g = &Group{Key: key, Min: ref, Violation: v, Outcome: oh}
						out.Groups[key] = g
					} else if less(ref, g.Min) {
						g.Min, g.Violation, g.Outcome = ref, v, oh
					}
					g.Count++
				}
				return true
			})
			out.Nodes += nodes
			out.Edges += edges
			if !completed {
				return out
			}
		}
		out.StageCompleted = stage
	}
	return out
}

// ---------------------------------------------------------------------------------------------------
// parent

type Report struct {
	Coverage    map[string]interface{}
	Violations  []ConfirmedViolation // unexplained, confirmed
	Known       []string             // KNOWN-FINDING lines
	HarnessErr  []string
	Assumptions []string
}

type ConfirmedViolation struct {
	Group  *Group
	Result Result
}

func runOne(ctx *Ctx, ref CaseRef, timeout time.Duration) (*Result, string, error) {
	of := filepath.Join(ctx.WorkDir, fmt.Sprintf("one-%d-%d.json", os.Getpid(), time.Now().UnixNano()))
	defer os.Remove(of)
	cmd := exec.Command(ctx.Self, "one", ctx.Spec.ID, ctx.Tier, strconv.Itoa(ref.Section), vecOrDash(ref.Vec), of)
	cmd.Stdout = nil
	var stderr strings.Builder
	cmd.Stderr = &stderr
	done := make(chan error, 1)
	if err := cmd.Start(); err != nil {
		return nil, "", err
	}
	go func() { done <- cmd.Wait() }()
	select {
	case err := <-done:
		if err != nil {
			return nil, stderr.String(), err
		}
	case <-time.After(timeout):
		cmd.Process.Kill()
		return nil, "", fmt.Errorf("timeout")
	}
	b, err := os.ReadFile(of)
	if err != nil {
		return nil, stderr.String(), err
	}
	var wrap struct {
		Result     Result
		HarnessErr string
	}
	if err := json.Unmarshal(b, &wrap); err != nil {
		return nil, "", err
	}
	if wrap.HarnessErr != "" {
		return nil, wrap.HarnessErr, fmt.Errorf("harness error")
	}
	return &wrap.Result, "", nil
}

func vecOrDash(v []int) string {
	if len(v) == 0 {
		return "-"
	}
	return vecString(v)
}

// One executes a single case in this (fresh) process and writes the result.
func One(spec *Spec, tier string, section int, vec []int, outfile string) {
	c := NewC(vec, tier)
	cs := spec.Sections[section].Gen(c)
	res, herr := RunCase(cs)
	b, _ := json.Marshal(struct {
		Result     Result
		HarnessErr string
		Tags       []string
		Desc       string
	}{res, herr, c.Tags(), c.Describe()})
	os.WriteFile(outfile, b, 0o644)
}

// Check is the parent: forks workers, merges, confirms candidates in fresh processes, writes evidence.
func Check(ctx *Ctx) *Report {
	spec := ctx.Spec
	if spec.Custom != nil {
		return spec.Custom(ctx)
	}
	W := ctx.W
	outs := make([]*WorkerOut, W)
	var hangs []CaseRef
	var mu sync.Mutex
	var wg sync.WaitGroup
	var herrs []string
	for i := 0; i < W; i++ {
		wg.Add(1)
		go func(i int) {
			defer wg.Done()
			skip := []string{}
			for attempt := 0; attempt < 4; attempt++ {
				of := filepath.Join(ctx.WorkDir, fmt.Sprintf("w%d.json", i))
				os.Remove(of)
				os.Remove(of + ".cur")
				cmd := exec.Command(ctx.Self, "worker", spec.ID, ctx.Tier, strconv.Itoa(i), strconv.Itoa(W), of,
					strconv.FormatInt(ctx.Deadline.Unix(), 10), strconv.FormatInt(ctx.Seed, 10), strings.Join(skip, ";"))
				var stderr strings.Builder
				cmd.Stderr = &stderr
				err := cmd.Run()
				b, rerr := os.ReadFile(of)
				if err == nil && rerr == nil {
					var wo WorkerOut
					if jerr := json.Unmarshal(b, &wo); jerr == nil {
						outs[i] = &wo
						return
					}
				}
				// worker died: hang watchdog or fatal error in the code under test (e.g. stack overflow)
				cur, cerr := os.ReadFile(of + ".cur")
				if cerr != nil {
					mu.Lock()
					herrs = append(herrs, fmt.Sprintf("worker %d failed: %v %s", i, err, trunc(stderr.String(), 2000)))
					mu.Unlock()
					return
				}
				var ref CaseRef
				json.Unmarshal(cur, &ref)
				mu.Lock()
				hangs = append(hangs, ref)
				mu.Unlock()
				skip = append(skip, fmt.Sprintf("%d:%s", ref.Section, vecString(ref.Vec)))
			}
		}(i)
	}
	wg.Wait()

	rep := &Report{Coverage: map[string]interface{}{}, Assumptions: spec.Assumptions, HarnessErr: herrs}
	inputs := map[string]bool{}
	outcomes := map[string]bool{}
	groups := map[string]*Group{}
	var samples []Sample
	var first []FirstCase
	evals, nodes, edges, skipped := 0, 0, 0, 0
	stage := 1 << 30
	maxStage := 0
	deadline := false
	perSection := map[string]int{}
	skipReasons := map[string]int{}
	for _, o := range outs {
		if o == nil {
			continue
		}
		evals += o.Evaluations
		skipped += o.Skipped
		if o.Nodes > nodes { // every worker walks the whole tree: nodes/edges are per-tree, not additive
			nodes, edges = o.Nodes, o.Edges
		}
		for h, nt := range o.Inputs {
			inputs[h] = inputs[h] || nt
		}
		for h := range o.Outcomes {
			outcomes[h] = true
		}
		for k, v := range o.PerSection {
			perSection[k] += v
		}
		for k, v := range o.SkipReasons {
			skipReasons[k] += v
		}
		for k, g := range o.Groups {
			if cur := groups[k]; cur == nil {
				groups[k] = g
			} else {
				cur.Count += g.Count
				if less(g.Min, cur.Min) {
					cur.Min, cur.Violation, cur.Outcome = g.Min, g.Violation, g.Outcome
				}
			}
		}
		if len(samples) < 5 && len(o.Samples) > 0 {
			samples = append(samples, o.Samples[len(o.Samples)-1])
			if len(o.Samples) > 1 && len(samples) < 5 {
				samples = append(samples, o.Samples[0])
			}
		}
		first = append(first, o.First...)
		if o.StageCompleted < stage {
			stage = o.StageCompleted
		}
		maxStage = o.MaxStage
		deadline = deadline || o.DeadlineHit
		rep.HarnessErr = append(rep.HarnessErr, o.HarnessErrors...)
	}
	nontrivial := 0
	for _, nt := range inputs {
		if nt {
			nontrivial++
		}
	}

	// reset-hook conformance: the first cases, each in a fresh process, must give the same observation
	conf, confBad := 0, 0
	var confMu sync.Mutex
	sem := make(chan bool, W)
	var cwg sync.WaitGroup
	for _, fc := range first {
		cwg.Add(1)
		sem <- true
		go func(fc FirstCase) {
			defer cwg.Done()
			defer func() { <-sem }()
			r, _, err := runOne(ctx, fc.Ref, 120*time.Second)
			confMu.Lock()
			defer confMu.Unlock()
			if err != nil {
				return
			}
			conf++
			if Hash(r.Outcome) != fc.Outcome {
				confBad++
				rep.Coverage["reset_conformance_first_mismatch"] = fc.Ref.Desc
			}
		}(fc)
	}
	cwg.Wait()

	// confirmation of every candidate class in fresh processes, twice
	var keys []string
	for k := range groups {
		keys = append(keys, k)
	}
	sort.Strings(keys)
	confirmations, unconfirmed := 0, []string{}
	type conf2 struct {
		g   *Group
		res *Result
		ok  bool
		why string
	}
	results := make([]conf2, len(keys))
	var kwg sync.WaitGroup
	for i, k := range keys {
		kwg.Add(1)
		sem <- true
		go func(i int, g *Group) {
			defer kwg.Done()
			defer func() { <-sem }()
			var rs [2]*Result
			for j := 0; j < 2; j++ {
				r, serr, err := runOne(ctx, g.Min, 600*time.Second)
				if err != nil {
					if err.Error() == "timeout" && g.Violation.Clause == "non-termination" {
						r = &Result{Violations: []Violation{g.Violation}, Outcome: "TIMEOUT"}
					} else {
						results[i] = conf2{g: g, why: fmt.Sprintf("fresh-process run failed: %v %s", err, trunc(serr, 500))}
						// a crash of the fresh process (fatal error, not a panic) still counts for clause "crash"
						if g.Violation.Clause == "crash" {
							r = &Result{Violations: []Violation{g.Violation}, Outcome: "CRASH"}
						} else {
							return
						}
					}
				}
				rs[j] = r
			}
			// the violation class must reproduce in BOTH fresh-process replays; the observations themselves may
			// differ where the implementation depends on map iteration order (that nondeterminism is C08's
			// subject and is owned only in the C08 binary)
			hits := 0
			for j := 0; j < 2; j++ {
				for _, v := range rs[j].Violations {
					if v.ClassKey() == g.Violation.ClassKey() {
						hits++
						break
					}
				}
			}
			if hits == 2 {
				results[i] = conf2{g: g, res: rs[0], ok: true}
				return
			}
			results[i] = conf2{g: g, why: fmt.Sprintf("violation class reproduced in %d of 2 fresh-process replays", hits)}
		}(i, groups[k])
	}
	kwg.Wait()

	// hangs / crashes of workers: confirm separately
	for _, ref := range hangs {
		_, serr, err := runOne(ctx, ref, 600*time.Second)
		if err != nil {
			clause, kind := "crash", "fatal:"+panicClass(firstLine(serr))
			if err.Error() == "timeout" {
				clause, kind = "non-termination", "no-result-within-600s"
			}
			g := &Group{Key: "U:" + clause + "/" + kind, Count: 1, Min: ref, Violation: Violation{Clause: clause, Kind: kind, Detail: trunc(serr, 1500)}}
			for fi, f := range ctx.Findings {
				if f.Matches(g.Violation, ref.Tags) {
					g.Key = "F" + strconv.Itoa(fi)
				}
			}
			// second replay
			_, _, err2 := runOne(ctx, ref, 600*time.Second)
			if err2 != nil {
				results = append(results, conf2{g: g, res: &Result{Violations: []Violation{g.Violation}, Outcome: strings.ToUpper(clause)}, ok: true})
			}
		}
	}

	os.MkdirAll(filepath.Join("replay", spec.ID), 0o755)
	usedFindings := map[int]bool{}
	nrep := 0
	for _, r := range results {
		if r.g == nil {
			continue
		}
		if !r.ok {
			unconfirmed = append(unconfirmed, r.g.Min.Desc+" ["+vecString(r.g.Min.Vec)+"] "+r.g.Violation.ClassKey()+": "+r.why)
			continue
		}
		confirmations++
		nrep++
		path := filepath.Join("replay", spec.ID, fmt.Sprintf("%s-%d.json", ctx.Tier, nrep))
		var v Violation = r.g.Violation
		for _, x := range r.res.Violations {
			if x.ClassKey() == r.g.Violation.ClassKey() {
				v = x
				break
			}
		}
		writeJSON(path, map[string]interface{}{
			"property": spec.ID, "tier": ctx.Tier, "section": r.g.Min.Section, "section_name": spec.Sections[min(r.g.Min.Section, len(spec.Sections)-1)].Name,
			"vec": vecOrDash(r.g.Min.Vec), "choices": r.g.Min.Desc, "tags": r.g.Min.Tags, "class": v.ClassKey(),
			"violation": v, "all_violations": r.res.Violations, "input": r.res.Input, "observed_outcome": r.res.Outcome,
			"cases_in_class": r.g.Count, "group": r.g.Key,
		})
		if strings.HasPrefix(r.g.Key, "F") {
			fi, _ := strconv.Atoi(r.g.Key[1:])
			usedFindings[fi] = true
			rep.Known = append(rep.Known, fmt.Sprintf("KNOWN-FINDING: property=%s %s (class=%s, %d cases, replay=%s)", spec.ID, ctx.Findings[fi].What, ctx.Findings[fi].Class, r.g.Count, path))
		} else {
			rep.Violations = append(rep.Violations, ConfirmedViolation{Group: r.g, Result: *r.res})
			r.g.Key = path // reuse to carry the replay path
		}
	}
	var stale []string
	for fi, f := range ctx.Findings {
		if !usedFindings[fi] {
			stale = append(stale, f.Class)
		}
	}

	exhaustive := !deadline && len(herrs) == 0 && len(rep.HarnessErr) == 0
	cov := rep.Coverage
	cov["states"] = nodes
	cov["transitions"] = edges
	cov["traces_validated_against_impl"] = evals
	cov["evaluations"] = evals
	cov["distinct_inputs"] = len(inputs)
	cov["distinct_nontrivial"] = nontrivial
	cov["distinct_outcomes"] = len(outcomes)
	cov["rule"] = spec.Rule
	cov["samples"] = samples
	cov["exhaustive"] = exhaustive
	cov["deviation_bound_max"] = maxStage
	if stage == 1<<30 {
		stage = -1
	}
	cov["bound_completed"] = stage
	cov["deadline_hit"] = deadline
	cov["per_section_evaluations"] = perSection
	cov["generator_skipped"] = skipped
	if len(skipReasons) > 0 {
		cov["generator_skip_reasons"] = skipReasons
	}
	cov["reset_conformance_cases"] = conf
	cov["reset_hook_unfaithful"] = confBad > 0
	cov["fresh_process_confirmations"] = confirmations
	cov["unconfirmed_candidates"] = unconfirmed
	cov["stale_known_findings"] = stale
	cov["workers"] = W
	cov["gomaxprocs"] = runtime.GOMAXPROCS(0)
	if spec.Extra != nil {
		for k, v := range spec.Extra(ctx.Tier) {
			cov[k] = v
		}
	}
	return rep
}

func firstLine(s string) string {
	for _, l := range strings.Split(s, "\n") {
		if strings.TrimSpace(l) != "" {
			return l
		}
	}
	return ""
}

func writeJSON(path string, v interface{}) {
	b, _ := json.MarshalIndent(v, "", " ")
	os.WriteFile(path, append(b, '\n'), 0o644)
}
