package engine

import (
	"encoding/json"
	"fmt"
	"os"
	"os/exec"
	"path/filepath"
	"runtime/debug"
	"sync"
)

// TaskFunc is a unit of work executed inside a worker process (one process handles a chunk of tasks
// sequentially). Used by the custom explorers (X2 explicit-state, X3 map-order, CLI children).
type TaskFunc func(in json.RawMessage) interface{}

var Tasks = map[string]TaskFunc{}

type TaskResult struct {
	Out   json.RawMessage `json:"out,omitempty"`
	Panic string          `json:"panic,omitempty"` // panic inside the code under test
	Frame string          `json:"frame,omitempty"`
	Err   string          `json:"err,omitempty"` // harness error
}

// TaskMain is the body of `mc task <name> <infile> <outfile>`.
func TaskMain(name, infile, outfile string) {
	fn := Tasks[name]
	if fn == nil {
		fmt.Fprintln(os.Stderr, "unknown task", name)
		os.Exit(2)
	}
	b, err := os.ReadFile(infile)
	if err != nil {
		fmt.Fprintln(os.Stderr, err)
		os.Exit(2)
	}
	var ins []json.RawMessage
	if err := json.Unmarshal(b, &ins); err != nil {
		fmt.Fprintln(os.Stderr, err)
		os.Exit(2)
	}
	outs := make([]TaskResult, len(ins))
	for i, in := range ins {
		outs[i] = runTask(fn, in)
		if i%50 == 49 {
			wb, _ := json.Marshal(outs[:i+1])
			os.WriteFile(outfile+".part", wb, 0o644)
		}
	}
	wb, _ := json.Marshal(outs)
	os.WriteFile(outfile, wb, 0o644)
}

func runTask(fn TaskFunc, in json.RawMessage) (res TaskResult) {
	defer func() {
		if r := recover(); r != nil {
			st := string(debug.Stack())
			frame, inCoca := topFrame(st)
			if !inCoca {
				res = TaskResult{Err: fmt.Sprintf("harness panic: %v\n%s", r, st)}
				return
			}
			res = TaskResult{Panic: fmt.Sprint(r), Frame: frame}
		}
	}()
	out := fn(in)
	b, err := json.Marshal(out)
	if err != nil {
		return TaskResult{Err: err.Error()}
	}
	return TaskResult{Out: b}
}

// RunTasks distributes inputs over ctx.W worker processes (round-robin chunks), preserving order.
func RunTasks(ctx *Ctx, name string, inputs []interface{}) ([]TaskResult, error) {
	n := len(inputs)
	results := make([]TaskResult, n)
	if n == 0 {
		return results, nil
	}
	W := ctx.W
	if W > n {
		W = n
	}
	var wg sync.WaitGroup
	var mu sync.Mutex
	var firstErr error
	for w := 0; w < W; w++ {
		wg.Add(1)
		go func(w int) {
			defer wg.Done()
			var idx []int
			var chunk []interface{}
			for i := w; i < n; i += W {
				idx = append(idx, i)
				chunk = append(chunk, inputs[i])
			}
			outs, err := runChunk(ctx, name, chunk, fmt.Sprintf("t%d-%d", os.Getpid(), w))
			mu.Lock()
			defer mu.Unlock()
			if err != nil && firstErr == nil {
				firstErr = err
			}
			for k, i := range idx {
				if k < len(outs) {
					results[i] = outs[k]
				} else {
					results[i] = TaskResult{Err: "worker died before this task"}
				}
			}
		}(w)
	}
	wg.Wait()
	return results, firstErr
}

var chunkSeq int
var chunkMu sync.Mutex

func runChunk(ctx *Ctx, name string, chunk []interface{}, tag string) ([]TaskResult, error) {
	chunkMu.Lock()
	chunkSeq++
	seq := chunkSeq
	chunkMu.Unlock()
	inf := filepath.Join(ctx.WorkDir, fmt.Sprintf("%s-%d.in.json", tag, seq))
	outf := filepath.Join(ctx.WorkDir, fmt.Sprintf("%s-%d.out.json", tag, seq))
	defer os.Remove(inf)
	defer os.Remove(outf)
	defer os.Remove(outf + ".part")
	b, _ := json.Marshal(chunk)
	if err := os.WriteFile(inf, b, 0o644); err != nil {
		return nil, err
	}
	cmd := exec.Command(ctx.Self, "task", name, inf, outf)
	cmd.Env = os.Environ()
	stderr, err := cmd.CombinedOutput()
	ob, rerr := os.ReadFile(outf)
	if rerr != nil {
		// worker died (fatal error in the code under test, e.g. stack overflow): salvage the partial output
		pb, perr := os.ReadFile(outf + ".part")
		var outs []TaskResult
		if perr == nil {
			json.Unmarshal(pb, &outs)
		}
		return outs, fmt.Errorf("task worker failed: %v: %s", err, trunc(string(stderr), 1500))
	}
	var outs []TaskResult
	if jerr := json.Unmarshal(ob, &outs); jerr != nil {
		return nil, jerr
	}
	return outs, nil
}

// RunTaskFresh runs one task alone in a fresh process.
func RunTaskFresh(ctx *Ctx, name string, input interface{}) (TaskResult, error) {
	outs, err := runChunk(ctx, name, []interface{}{input}, fmt.Sprintf("f%d", os.Getpid()))
	if len(outs) == 1 {
		return outs[0], err
	}
	return TaskResult{}, err
}

// TaskVerdict is the conventional output shape of tasks whose result is a verdict on one execution.
type TaskVerdict struct {
	Violations []Violation `json:"violations,omitempty"`
	Outcome    string      `json:"outcome,omitempty"`
	State      string      `json:"state,omitempty"` // hash of the hidden state reached (X2)
	Extra      interface{} `json:"extra,omitempty"`
}

// Candidate is a violation found by a custom explorer, to be confirmed in fresh processes.
type Candidate struct {
	Violation Violation
	Tags      []string
	Desc      string
	Task      string      // task name
	Input     interface{} // task input reproducing it
	Count     int
	Cost      int // minimality measure (smaller = simpler)
}

// ConfirmAndReport confirms each candidate class (minimal member) twice in fresh processes, matches known
// findings, writes replay files, and fills the report.
func ConfirmAndReport(ctx *Ctx, rep *Report, cands []Candidate) {
	type grp struct {
		key string
		c   Candidate
		n   int
	}
	groups := map[string]*grp{}
	var order []string
	for _, c := range cands {
		key := "U:" + c.Violation.ClassKey()
		for fi, f := range ctx.Findings {
			if f.Matches(c.Violation, c.Tags) {
				key = fmt.Sprintf("F%d", fi)
				break
			}
		}
		g := groups[key]
		cnt := c.Count
		if cnt == 0 {
			cnt = 1
		}
		if g == nil {
			groups[key] = &grp{key: key, c: c, n: cnt}
			order = append(order, key)
		} else {
			g.n += cnt
			if c.Cost < g.c.Cost {
				g.c = c
			}
		}
	}
	os.MkdirAll(filepath.Join("replay", ctx.Spec.ID), 0o755)
	used := map[int]bool{}
	var unconfirmed []string
	nrep, confirmations := 0, 0
	for _, key := range order {
		g := groups[key]
		ok := true
		why := ""
		var outcomes [2]string
		var last TaskVerdict
		for j := 0; j < 2 && ok; j++ {
			tr, err := RunTaskFresh(ctx, g.c.Task, g.c.Input)
			if tr.Panic != "" {
				last = TaskVerdict{Violations: []Violation{{Clause: "panic", Kind: tr.Frame + ":" + panicClass(tr.Panic), Detail: "panic in " + tr.Frame + ": " + tr.Panic}}, Outcome: "PANIC " + tr.Frame}
			} else if err != nil || tr.Err != "" {
				if g.c.Violation.Clause == "crash" {
					last = TaskVerdict{Violations: []Violation{g.c.Violation}, Outcome: "CRASH"}
				} else {
					ok, why = false, fmt.Sprintf("fresh-process run failed: %v %s", err, tr.Err)
					break
				}
			} else {
				last = TaskVerdict{}
				json.Unmarshal(tr.Out, &last)
			}
			outcomes[j] = last.Outcome
			found := false
			for _, v := range last.Violations {
				if v.ClassKey() == g.c.Violation.ClassKey() {
					found = true
					if len(v.Detail) >= len(g.c.Violation.Detail) {
						g.c.Violation = v
					}
				}
			}
			if !found {
				ok, why = false, "violation class did not reproduce in a fresh process"
			}
		}
		if !ok {
			unconfirmed = append(unconfirmed, g.c.Desc+" "+g.c.Violation.ClassKey()+": "+why)
			continue
		}
		confirmations++
		nrep++
		path := filepath.Join("replay", ctx.Spec.ID, fmt.Sprintf("%s-%d.json", ctx.Tier, nrep))
		writeJSON(path, map[string]interface{}{
			"property": ctx.Spec.ID, "tier": ctx.Tier, "custom_task": g.c.Task, "task_input": g.c.Input, "choices": g.c.Desc,
			"tags": g.c.Tags, "class": g.c.Violation.ClassKey(), "violation": g.c.Violation, "all_violations": last.Violations,
			"observed_outcome": last.Outcome, "cases_in_class": g.n, "group": key,
		})
		if key[0] == 'F' {
			var fi int
			fmt.Sscanf(key[1:], "%d", &fi)
			used[fi] = true
			rep.Known = append(rep.Known, fmt.Sprintf("KNOWN-FINDING: property=%s %s (class=%s, %d cases, replay=%s)", ctx.Spec.ID, ctx.Findings[fi].What, ctx.Findings[fi].Class, g.n, path))
		} else {
			rep.Violations = append(rep.Violations, ConfirmedViolation{Group: &Group{Key: path, Count: g.n, Violation: g.c.Violation}})
		}
	}
	var stale []string
	for fi, f := range ctx.Findings {
		if !used[fi] {
			stale = append(stale, f.Class)
		}
	}
	rep.Coverage["fresh_process_confirmations"] = confirmations
	rep.Coverage["unconfirmed_candidates"] = unconfirmed
	rep.Coverage["stale_known_findings"] = stale
}
