// overlaygen generates, from the CURRENT /repo working tree, a `go build -overlay` description that adds
// (guard: build tag "verif"):
//   - the virtual package github.com/modernizing/coca/pkg/verifrt,
//   - per coca package under pkg/...: zz_verif_*.go with a reset function re-executing every package-level
//     initialiser (types.Info.InitOrder) and zeroing the rest, and a state dumper over every package var,
//   - with -maporder: rewritten copies of every file containing `for .. := range <map>` so that the
//     iteration order is decided by verifrt.Keys (explorer X3).
//
// Nothing is written under /repo. Usage: overlaygen -repo /repo -out DIR [-maporder] [-base overlay.json]
package main

import (
	"bytes"
	"encoding/json"
	"flag"
	"fmt"
	"go/ast"
	"go/format"
	"go/printer"
	"go/token"
	"go/types"
	"os"
	"path/filepath"
	"sort"
	"strings"

	"golang.org/x/tools/go/packages"
)

type overlayJSON struct {
	Replace map[string]string
}

func main() {
	repo := flag.String("repo", "/repo", "repository root")
	out := flag.String("out", "", "output directory")
	maporder := flag.Bool("maporder", false, "also rewrite map ranges")
	base := flag.String("base", "", "existing overlay.json (e.g. a mutant) to load on top of the tree and to merge into the result")
	rtsrc := flag.String("rt", "engine/verifrt_src/verifrt.go.txt", "verifrt source")
	flag.Parse()
	if *out == "" {
		fatal("need -out")
	}
	must(os.MkdirAll(*out, 0o755))

	result := overlayJSON{Replace: map[string]string{}}
	cfgOverlay := map[string][]byte{}
	if *base != "" {
		b, err := os.ReadFile(*base)
		must(err)
		var bo overlayJSON
		must(json.Unmarshal(b, &bo))
		for k, v := range bo.Replace {
			result.Replace[k] = v
			c, err := os.ReadFile(v)
			must(err)
			cfgOverlay[k] = c
		}
	}

	cfg := &packages.Config{
		Mode: packages.NeedName | packages.NeedFiles | packages.NeedCompiledGoFiles | packages.NeedSyntax |
			packages.NeedTypes | packages.NeedTypesInfo | packages.NeedImports | packages.NeedDeps,
		Dir:     *repo,
		Env:     append(os.Environ(), "GOFLAGS=-mod=mod", "GOPROXY=off", "GOSUMDB=off", "GOTOOLCHAIN=local"),
		Overlay: cfgOverlay,
	}
	patterns := []string{"./pkg/..."}
	if *maporder {
		// the command layer and the drivers under analysis/: no state hooks (they run in processes of their
		// own or with every flag given), but their map ranges are scheduled like any other
		patterns = append(patterns, "./cmd/...", "./analysis/...")
	}
	// third-party packages on the path of reported values (graphcall) live in another module and cannot
	// import the virtual runtime package; their map ranges stay with the Go runtime (DESIGN.md 6)
	pkgs, err := packages.Load(cfg, patterns...)
	must(err)
	nerr := 0
	for _, p := range pkgs {
		for _, e := range p.Errors {
			fmt.Fprintln(os.Stderr, "overlaygen: load error:", e)
			nerr++
		}
	}
	if nerr > 0 {
		fatal("package load errors")
	}

	// virtual runtime package
	rt, err := os.ReadFile(*rtsrc)
	must(err)
	rtOut := filepath.Join(*out, "verifrt.go")
	must(os.WriteFile(rtOut, append([]byte("//go:build verif\n\n"), rt...), 0o644))
	result.Replace[filepath.Join(*repo, "pkg/verifrt/verifrt.go")] = rtOut

	sort.Slice(pkgs, func(i, j int) bool { return pkgs[i].PkgPath < pkgs[j].PkgPath })
	nvars, nsites := 0, 0
	for _, p := range pkgs {
		if strings.Contains(p.PkgPath, "/pkg/verifrt") {
			continue
		}
		isCoca := strings.HasPrefix(p.PkgPath, "github.com/modernizing/coca/pkg/")
		if isCoca {
			nvars += genState(p, *out, &result)
		}
		if *maporder {
			nsites += genMapOrder(p, *out, &result, isCoca)
		}
	}
	b, _ := json.MarshalIndent(result, "", " ")
	must(os.WriteFile(filepath.Join(*out, "overlay.json"), b, 0o644))
	fmt.Fprintf(os.Stderr, "overlaygen: %d packages, %d package-level vars hooked, %d map-range sites rewritten, %d overlay entries\n",
		len(pkgs), nvars, nsites, len(result.Replace))
}

func fatal(a ...interface{}) {
	fmt.Fprintln(os.Stderr, append([]interface{}{"overlaygen:"}, a...)...)
	os.Exit(2)
}
func must(err error) {
	if err != nil {
		fatal(err)
	}
}

type imp struct{ name, path string }

func safe(s string) string {
	s = strings.TrimSuffix(strings.TrimPrefix(strings.TrimPrefix(s, "github.com/modernizing/coca/"), "/repo/"), ".go")
	var b strings.Builder
	for _, r := range s {
		if r >= 'a' && r <= 'z' || r >= 'A' && r <= 'Z' || r >= '0' && r <= '9' {
			b.WriteRune(r)
		} else {
			b.WriteByte('_')
		}
	}
	return b.String()
}

// genState emits reset/state hooks for one package; returns number of hooked vars.
func genState(p *packages.Package, out string, res *overlayJSON) int {
	if len(p.CompiledGoFiles) == 0 || p.Types == nil {
		return 0
	}
	dir := filepath.Dir(p.CompiledGoFiles[0])
	scope := p.Types.Scope()
	var vars []*types.Var
	for _, n := range scope.Names() {
		if v, ok := scope.Lookup(n).(*types.Var); ok && n != "_" {
			vars = append(vars, v)
		}
	}
	if len(vars) == 0 {
		return 0
	}
	fileOf := func(pos token.Pos) string { return p.Fset.Position(pos).Filename }

	// per source file: list of init functions
	type initFn struct {
		name string
		body string
		imps []imp
	}
	perFile := map[string][]initFn{}
	var order []string
	inited := map[*types.Var]bool{}
	for i, ini := range p.TypesInfo.InitOrder {
		src := fileOf(ini.Rhs.Pos())
		if strings.HasSuffix(src, "_test.go") {
			continue
		}
		var lhs []string
		for _, v := range ini.Lhs {
			inited[v] = true
			lhs = append(lhs, v.Name())
		}
		var buf bytes.Buffer
		must((&printer.Config{Mode: printer.RawFormat}).Fprint(&buf, p.Fset, ini.Rhs))
		fn := initFn{name: fmt.Sprintf("verifInit%d", i)}
		fn.body = strings.Join(lhs, ", ") + " = " + buf.String()
		fn.imps = usedImports(p, ini.Rhs)
		perFile[src] = append(perFile[src], fn)
		order = append(order, fn.name)
	}
	pkgName := p.Types.Name()
	idx := 0
	var srcs []string
	for s := range perFile {
		srcs = append(srcs, s)
	}
	sort.Strings(srcs)
	for _, src := range srcs {
		var sb strings.Builder
		sb.WriteString("//go:build verif\n\n// Code generated by /verif/engine/overlaygen from " + filepath.Base(src) + "; DO NOT EDIT.\npackage " + pkgName + "\n\n")
		seen := map[imp]bool{}
		var imps []imp
		for _, f := range perFile[src] {
			for _, im := range f.imps {
				if !seen[im] {
					seen[im] = true
					imps = append(imps, im)
				}
			}
		}
		sort.Slice(imps, func(i, j int) bool { return imps[i].path+imps[i].name < imps[j].path+imps[j].name })
		if len(imps) > 0 {
			sb.WriteString("import (\n")
			for _, im := range imps {
				fmt.Fprintf(&sb, "\t%s %q\n", im.name, im.path)
			}
			sb.WriteString(")\n\n")
		}
		for _, f := range perFile[src] {
			fmt.Fprintf(&sb, "func %s() {\n\t%s\n}\n\n", f.name, f.body)
		}
		writeOverlay(res, out, dir, fmt.Sprintf("zz_verif_init_%s.go", safe(src)), p.PkgPath, &idx, sb.String())
	}
	var sb strings.Builder
	sb.WriteString("//go:build verif\n\n// Code generated by /verif/engine/overlaygen; DO NOT EDIT.\npackage " + pkgName + "\n\n")
	sb.WriteString("import verifrtZZ \"github.com/modernizing/coca/pkg/verifrt\"\n\n")
	fmt.Fprintf(&sb, "func init() { verifrtZZ.Register(%q, verifResetZZ, verifStateZZ) }\n\n", p.PkgPath)
	sb.WriteString("func verifResetZZ() {\n")
	for _, v := range vars {
		if !inited[v] && !strings.HasSuffix(fileOf(v.Pos()), "_test.go") {
			fmt.Fprintf(&sb, "\tverifrtZZ.Zero(&%s)\n", v.Name())
		}
	}
	for _, f := range order {
		fmt.Fprintf(&sb, "\t%s()\n", f)
	}
	sb.WriteString("}\n\nfunc verifStateZZ(d *verifrtZZ.Dumper) {\n")
	n := 0
	for _, v := range vars {
		if strings.HasSuffix(fileOf(v.Pos()), "_test.go") {
			continue
		}
		fmt.Fprintf(&sb, "\td.Var(%q, &%s)\n", v.Name(), v.Name())
		n++
	}
	sb.WriteString("}\n")
	writeOverlay(res, out, dir, "zz_verif_state.go", p.PkgPath, &idx, sb.String())
	return n
}

func writeOverlay(res *overlayJSON, out, dir, name, pkgPath string, idx *int, content string) {
	b, err := format.Source([]byte(content))
	if err != nil {
		fmt.Fprintln(os.Stderr, content)
		fatal("generated code does not format:", err)
	}
	*idx++
	f := filepath.Join(out, safe(pkgPath)+"__"+name)
	must(os.WriteFile(f, b, 0o644))
	res.Replace[filepath.Join(dir, name)] = f
}

// usedImports: the imports (with the local names used in the defining file) an expression needs.
func usedImports(p *packages.Package, e ast.Expr) []imp {
	var r []imp
	seen := map[imp]bool{}
	add := func(im imp) {
		if !seen[im] {
			seen[im] = true
			r = append(r, im)
		}
	}
	sel := map[*ast.Ident]bool{}
	ast.Inspect(e, func(n ast.Node) bool {
		if s, ok := n.(*ast.SelectorExpr); ok {
			sel[s.Sel] = true
		}
		return true
	})
	ast.Inspect(e, func(n ast.Node) bool {
		id, ok := n.(*ast.Ident)
		if !ok || sel[id] {
			return true
		}
		obj := p.TypesInfo.Uses[id]
		if obj == nil {
			return true
		}
		if pn, ok := obj.(*types.PkgName); ok {
			add(imp{pn.Name(), pn.Imported().Path()})
			return true
		}
		if obj.Pkg() == nil || obj.Pkg() == p.Types {
			return true
		}
		if v, ok := obj.(*types.Var); ok && v.IsField() {
			return true
		}
		if obj.Parent() == obj.Pkg().Scope() { // unqualified use of a foreign package-level object: dot import
			add(imp{".", obj.Pkg().Path()})
		}
		return true
	})
	return r
}

// genMapOrder rewrites `for k, v := range m` (m of map type) into an iteration over verifrt.Keys(m, site).
func genMapOrder(p *packages.Package, out string, res *overlayJSON, isCoca bool) int {
	total := 0
	idx := 1000
	for i, f := range p.Syntax {
		fname := p.CompiledGoFiles[i]
		if strings.HasSuffix(fname, "_test.go") {
			continue
		}
		type edit struct {
			start, end int
			text       string
		}
		var edits []edit
		src, err := os.ReadFile(fname)
		if ov, ok := res.Replace[fname]; ok {
			src, err = os.ReadFile(ov)
		}
		must(err)
		off := func(pos token.Pos) int { return p.Fset.Position(pos).Offset }
		n := 0
		ast.Inspect(f, func(nd ast.Node) bool {
			rs, ok := nd.(*ast.RangeStmt)
			if !ok {
				return true
			}
			tv, ok := p.TypesInfo.Types[rs.X]
			if !ok {
				return true
			}
			if _, isMap := tv.Type.Underlying().(*types.Map); !isMap {
				return true
			}
			site := fmt.Sprintf("%s:%d", strings.TrimPrefix(fname, "/repo/"), p.Fset.Position(rs.Pos()).Line)
			if !isCoca {
				site = fmt.Sprintf("%s/%s:%d", p.PkgPath, filepath.Base(fname), p.Fset.Position(rs.Pos()).Line)
			}
			xs := string(src[off(rs.X.Pos()):off(rs.X.End())])
			key, val := "_", "_"
			if rs.Key != nil {
				key = string(src[off(rs.Key.Pos()):off(rs.Key.End())])
			}
			if rs.Value != nil {
				val = string(src[off(rs.Value.Pos()):off(rs.Value.End())])
			}
			if rs.Tok != token.DEFINE && !(key == "_" && val == "_") {
				fatal("map range without := at", site)
			}
			n++
			mv := fmt.Sprintf("verifM%d", n)
			kv := fmt.Sprintf("verifK%d", n)
			// header: for _, kv := range verifrtMO.Keys(m, site) { val, ok := m[kv]; if !ok {continue}; key := kv; _ = key
			var hdr strings.Builder
			fmt.Fprintf(&hdr, "%s := %s\nfor _, %s := range verifrtMO.Keys(%s, %q) {\n", mv, xs, kv, mv, site)
			if val != "_" {
				fmt.Fprintf(&hdr, "%s, verifOK := %s[%s]\nif !verifOK {\ncontinue\n}\n_ = %s\n", val, mv, kv, val)
			} else {
				fmt.Fprintf(&hdr, "if _, verifOK := %s[%s]; !verifOK {\ncontinue\n}\n", mv, kv)
			}
			if key != "_" {
				fmt.Fprintf(&hdr, "%s := %s\n_ = %s\n", key, kv, key)
			}
			// replace from `for` up to and including the body's opening brace; wrap the whole in a block
			edits = append(edits, edit{off(rs.Pos()), off(rs.Body.Lbrace) + 1, "{\n" + hdr.String()})
			edits = append(edits, edit{off(rs.Body.Rbrace) + 1, off(rs.Body.Rbrace) + 1, "\n}"})
			return true
		})
		if n == 0 {
			continue
		}
		total += n
		sort.Slice(edits, func(i, j int) bool { return edits[i].start > edits[j].start })
		b := append([]byte{}, src...)
		for _, e := range edits {
			b = append(b[:e.start], append([]byte(e.text), b[e.end:]...)...)
		}
		// add import after the package clause
		pkgEnd := off(f.Name.End())
		b = append(b[:pkgEnd], append([]byte("\n\nimport verifrtMO \"github.com/modernizing/coca/pkg/verifrt\"\n"), b[pkgEnd:]...)...)
		fb, err := format.Source(b)
		if err != nil {
			fmt.Fprintln(os.Stderr, string(b))
			fatal("rewritten file does not format:", fname, err)
		}
		idx++
		of := filepath.Join(out, fmt.Sprintf("%s__mo_%s.go", safe(p.PkgPath), safe(fname)))
		must(os.WriteFile(of, fb, 0o644))
		res.Replace[fname] = of
	}
	return total
}
