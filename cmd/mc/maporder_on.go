//go:build verif && maporder

package main

// built with the map-range rewrite (explorer X3)
const verifMapOrder = true
