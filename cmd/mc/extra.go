package main

import "verif/engine"

// extra dispatches auxiliary subcommands registered by checks (e.g. "cli" children).
func extra(a []string) bool {
	if f, ok := engine.ExtraCmds[a[0]]; ok {
		f(a[1:])
		return true
	}
	return false
}
