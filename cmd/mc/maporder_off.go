//go:build !maporder

package main

const verifMapOrder = false
