// mc: bounded exhaustive exploration of coca's properties. See /verif/DESIGN.md.
//
//	mc check <id> <quick|thorough>      parent: forks workers, confirms, writes evidence/<id>.json
//	mc worker ...                       internal
//	mc one <id> <tier> <section> <vec> <outfile>   run a single case in this fresh process
//	mc replay <path>                    re-run the case of a replay file against the plain implementation
package main

import (
	"encoding/json"
	"fmt"
	"os"
	"path/filepath"
	"runtime"
	"strconv"
	"strings"
	"time"

	_ "verif/checks"
	"verif/engine"
)

var realStdout = os.Stdout

func silence() {
	// the code under test prints to stdout; keep the harness' own channel separate
	dn, _ := os.OpenFile(os.DevNull, os.O_WRONLY, 0)
	os.Stdout = dn
}

func main() {
	if len(os.Args) < 2 {
		fmt.Fprintln(os.Stderr, "usage: mc check|one|replay|list ...")
		os.Exit(2)
	}
	switch os.Args[1] {
	case "list":
		for _, id := range engine.IDs() {
			fmt.Println(id, engine.Registry[id].Title)
		}
	case "check":
		os.Exit(check(os.Args[2], os.Args[3]))
	case "worker":
		worker(os.Args[2:])
	case "one":
		silence()
		spec := mustSpec(os.Args[2])
		sec, _ := strconv.Atoi(os.Args[4])
		engine.One(spec, os.Args[3], sec, engine.ParseVec(os.Args[5]), os.Args[6])
	case "replay":
		os.Exit(replay(os.Args[2]))
	case "task":
		silence()
		engine.TaskMain(os.Args[2], os.Args[3], os.Args[4])
	default:
		if !extra(os.Args[1:]) {
			fmt.Fprintln(os.Stderr, "unknown subcommand", os.Args[1])
			os.Exit(2)
		}
	}
}

func mustSpec(id string) *engine.Spec {
	s := engine.Registry[id]
	if s == nil {
		fmt.Fprintln(os.Stderr, "mc: unknown property", id)
		os.Exit(2)
	}
	return s
}

func worker(a []string) {
	silence()
	spec := mustSpec(a[0])
	shard, _ := strconv.Atoi(a[2])
	w, _ := strconv.Atoi(a[3])
	of := a[4]
	dl, _ := strconv.ParseInt(a[5], 10, 64)
	seed, _ := strconv.ParseInt(a[6], 10, 64)
	skip := map[string]bool{}
	if len(a) > 7 && a[7] != "" {
		for _, s := range strings.Split(a[7], ";") {
			skip[s] = true
		}
	}
	ctx := &engine.Ctx{Spec: spec, Tier: a[1], Shard: shard, W: w, Deadline: time.Unix(dl, 0), Seed: seed,
		Findings: engine.LoadFindings("known_findings.txt", spec.ID)}
	// watchdog: a case that does not return within 120 s is a non-termination candidate
	type cur struct {
		ref engine.CaseRef
		at  time.Time
	}
	ch := make(chan cur, 1024)
	go func() {
		var c cur
		have := false
		tick := time.NewTicker(2 * time.Second)
		for {
			select {
			case x := <-ch:
				c, have = x, true
			case <-tick.C:
				for len(ch) > 0 {
					c = <-ch
				}
				if have && time.Since(c.at) > 120*time.Second {
					os.Exit(3)
				}
			}
		}
	}()
	n := 0
	out := engine.Worker(ctx, skip, func(ref engine.CaseRef) {
		n++
		// the .cur file names the case in flight, for the parent, should this process die
		b, _ := json.Marshal(ref)
		os.WriteFile(of+".cur", b, 0o644)
		select {
		case ch <- cur{ref, time.Now()}:
		default:
		}
	})
	b, _ := json.Marshal(out)
	os.WriteFile(of, b, 0o644)
}

func check(id, tier string) int {
	start := time.Now()
	spec := mustSpec(id)
	self, _ := os.Executable()
	wd, err := os.MkdirTemp(workRoot(), id+"-"+tier+"-")
	if err != nil {
		fmt.Fprintln(os.Stderr, err)
		return 2
	}
	defer os.RemoveAll(wd)
	seed, _ := strconv.ParseInt(os.Getenv("VERIF_SEED"), 10, 64)
	budget := 240 * time.Second
	if tier == "thorough" {
		budget = 25 * time.Minute
	}
	if s := os.Getenv("VERIF_BUDGET_S"); s != "" {
		if x, err := strconv.Atoi(s); err == nil {
			budget = time.Duration(x) * time.Second
		}
	}
	w := runtime.NumCPU()
	if w > 16 {
		w = 16
	}
	ctx := &engine.Ctx{Spec: spec, Tier: tier, W: w, Deadline: start.Add(budget), Seed: seed, WorkDir: wd, Self: self,
		Findings: engine.LoadFindings("known_findings.txt", id)}
	rep := engine.Check(ctx)

	ev := map[string]interface{}{
		"property_id": id, "tier": tier, "seed": seed, "level": "model_checking",
		"coverage": rep.Coverage, "assumptions": rep.Assumptions, "wall_s": time.Since(start).Seconds(),
		"violations": len(rep.Violations), "known_findings_matched": rep.Known,
	}
	// a run against a deliberately changed tree (mutant / seeded change through the base overlay) never
	// overwrites the evidence of the tree as it stands
	evDir := "evidence"
	if ov := os.Getenv("VERIF_BASE_OVERLAY"); ov != "" {
		evDir = filepath.Join(".work", "evidence-changed-tree")
		ev["base_overlay"] = ov
	}
	os.MkdirAll(evDir, 0o755)
	b, _ := json.MarshalIndent(ev, "", " ")
	os.WriteFile(filepath.Join(evDir, id+".json"), append(b, '\n'), 0o644)

	for _, l := range rep.Known {
		fmt.Fprintln(realStdout, l)
	}
	if len(rep.HarnessErr) > 0 {
		for _, e := range rep.HarnessErr {
			fmt.Fprintln(os.Stderr, "HARNESS-ERROR:", e)
		}
		return 2
	}
	for _, v := range rep.Violations {
		fmt.Fprintf(realStdout, "VIOLATION property=%s replay=%s class=%s cases=%d :: %s\n", id, v.Group.Key, v.Group.Violation.ClassKey(), v.Group.Count, oneLine(v.Group.Violation.Detail))
	}
	cov := rep.Coverage
	fmt.Fprintf(realStdout, "%s %s: evaluations=%v states=%v distinct_inputs=%v distinct_outcomes=%v bound_completed=%v exhaustive=%v violations=%d known=%d wall=%.1fs\n",
		id, tier, cov["evaluations"], cov["states"], cov["distinct_inputs"], cov["distinct_outcomes"], cov["bound_completed"], cov["exhaustive"], len(rep.Violations), len(rep.Known), time.Since(start).Seconds())
	if u, ok := cov["unconfirmed_candidates"].([]string); ok && len(u) > 0 {
		fmt.Fprintf(os.Stderr, "note: %d candidate class(es) did not confirm in a fresh process (see evidence)\n", len(u))
	}
	if len(rep.Violations) > 0 {
		return 1
	}
	return 0
}

func oneLine(s string) string {
	s = strings.ReplaceAll(s, "\n", " | ")
	if len(s) > 300 {
		s = s[:300] + "…"
	}
	return s
}

func workRoot() string {
	r := os.Getenv("VERIF_WORK")
	if r == "" {
		wd, _ := os.Getwd()
		r = filepath.Join(wd, ".work")
	}
	os.MkdirAll(r, 0o755)
	return r
}

// replay re-runs the case recorded in a replay file (its choice vector regenerates the same input) in
// this fresh process and reports whether the recorded violation class reproduces.
func replay(path string) int {
	b, err := os.ReadFile(path)
	if err != nil {
		fmt.Fprintln(os.Stderr, err)
		return 2
	}
	var rf struct {
		Property string `json:"property"`
		Tier     string `json:"tier"`
		Section  int    `json:"section"`
		Vec      string `json:"vec"`
		Class    string `json:"class"`
		Custom   string `json:"custom_task"`
		Input    json.RawMessage `json:"task_input"`
	}
	if err := json.Unmarshal(b, &rf); err != nil {
		fmt.Fprintln(os.Stderr, err)
		return 2
	}
	spec := mustSpec(rf.Property)
	silence()
	if rf.Custom != "" {
		fn := engine.Tasks[rf.Custom]
		if fn == nil {
			fmt.Fprintln(os.Stderr, "unknown task", rf.Custom)
			return 2
		}
		out := fn(rf.Input)
		ob, _ := json.MarshalIndent(out, "", " ")
		fmt.Fprintln(realStdout, string(ob))
		var tv engine.TaskVerdict
		json.Unmarshal(ob, &tv)
		for _, v := range tv.Violations {
			if v.ClassKey() == rf.Class {
				fmt.Fprintf(realStdout, "VIOLATION property=%s replay=%s\n", rf.Property, path)
				return 1
			}
		}
		fmt.Fprintln(realStdout, "recorded violation class does not reproduce on this tree")
		return 0
	}
	c := engine.NewC(engine.ParseVec(rf.Vec), rf.Tier)
	cs := spec.Sections[rf.Section].Gen(c)
	res, herr := engine.RunCase(cs)
	if herr != "" {
		fmt.Fprintln(os.Stderr, herr)
		return 2
	}
	out, _ := json.MarshalIndent(res, "", " ")
	fmt.Fprintln(realStdout, string(out))
	for _, v := range res.Violations {
		if v.ClassKey() == rf.Class {
			fmt.Fprintf(realStdout, "VIOLATION property=%s replay=%s\n", rf.Property, path)
			return 1
		}
	}
	fmt.Fprintln(realStdout, "recorded violation class does not reproduce on this tree")
	return 0
}
