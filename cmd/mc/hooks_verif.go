//go:build verif

package main

import (
	"github.com/modernizing/coca/pkg/verifrt"
	"verif/checks"
	"verif/engine"
)

func init() {
	engine.Reset = verifrt.ResetAll
	engine.StateDump = verifrt.StateAll
	if verifMapOrder {
		checks.SchedSet = func(f func(alts int, site string) int) { verifrt.Choose = f }
		checks.SchedEvents = func(reset bool) []checks.SchedEvent {
			var r []checks.SchedEvent
			for _, e := range verifrt.Events {
				r = append(r, checks.SchedEvent{Site: e.Site, Keys: e.Keys, Alts: e.Alts})
			}
			if reset {
				verifrt.Events = nil
			}
			return r
		}
	}
}
