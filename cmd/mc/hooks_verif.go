//go:build verif

package main

import (
	"github.com/modernizing/coca/pkg/verifrt"
	"verif/engine"
)

func init() {
	engine.Reset = verifrt.ResetAll
	engine.StateDump = verifrt.StateAll
}
