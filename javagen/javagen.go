// Package javagen: a tiny Java AST for the "conventional" subset plus a printer with an explicit layout
// policy. The printer records, while printing, the position of every identifier the properties talk
// about: it is the ground truth for lines, rune columns and byte offsets (the generator knows what it wrote).
package javagen

import (
	"strings"
	"unicode/utf8"
)

type Pos struct {
	Line    int // 1-based
	Col     int // 0-based, in runes (ANTLR's column)
	ByteCol int // 0-based, in bytes, within the line
	Offset  int // byte offset in the file
}

type Ann struct {
	Name   string
	Single string      // @Name(Single) when non-empty
	Pairs  [][2]string // @Name(k = v, ...)
}

func (a Ann) String() string {
	s := "@" + a.Name
	if a.Single != "" {
		return s + "(" + a.Single + ")"
	}
	if len(a.Pairs) > 0 {
		var ps []string
		for _, p := range a.Pairs {
			ps = append(ps, p[0]+" = "+p[1])
		}
		return s + "(" + strings.Join(ps, ", ") + ")"
	}
	return s
}

type Param struct {
	Anns []Ann
	Type string
	Name string
}

// Frag is a piece of a statement: plain text or a site (an identifier whose position is recorded).
type Frag struct {
	Text string
	Site *Site
}

// Site is an identifier token of interest inside a body: a callee identifier or a created type name.
type Site struct {
	Kind      string // "call" | "new" | "ref" (method reference)
	Name      string // callee / created type
	CheckRecv bool   // the statement fixes the receiver for this site
	RecvType  string // expected simple type name
	RecvPkg   string // expected package
	Tag       string // free label for diagnostics
	Pos       Pos    // filled by the printer (position of the identifier)
	EndLine   int
}

// Stmt is one statement, printed on its own line(s) unless joined by the layout.
type Stmt struct {
	Frags []Frag
	// Lines > 0: block statements print as several lines; Frags may contain "\n" which the printer indents.
}

func T(s string) Frag { return Frag{Text: s} }
func S(site *Site) Frag {
	return Frag{Site: site}
}
func St(frags ...Frag) Stmt { return Stmt{Frags: frags} }

type Method struct {
	Anns       []Ann
	Mods       []string
	TypeParams string // "<T>" for generic methods
	Ret        string // "" for constructors
	Name       string
	Params     []Param
	Throws     string
	Body       []Stmt
	NoBody     bool // interface / abstract method: ends with ';'
	IsCtor     bool
	// filled by the printer
	DeclPos   Pos // first token of the declaration (annotation or modifier or type)
	TypePos   Pos // first token after annotations+modifiers (return type / type params / ctor name)
	NamePos   Pos
	CloseLine int // line of the closing brace (or of ';')
	Sites     []*Site
}

type Field struct {
	Anns []Ann
	Mods []string
	Type string
	Name string
	Init []Frag // initialiser expression fragments (may contain sites)
	Pos  Pos
}

type Member struct {
	Method *Method
	Field  *Field
	Raw    string // raw member text (e.g. initialiser block, nested type) printed verbatim
}

type Class struct {
	HeaderComment string
	Pkg           string
	Imports       []string // full import texts, e.g. "a.b.C", "static a.B.m", "a.b.*"
	Anns          []Ann
	Mods          []string
	Kind          string // "class" | "interface"
	Name          string
	TypeParams    string
	Extends       string
	Implements    []string
	Members       []Member
	// filled by printer
	NamePos    Pos
	ImportLine []int
	PkgLine    int
}

type Layout struct {
	Indent         string // "    " default
	BraceOwnLine   bool   // opening braces on their own line
	BlankBetween   int    // blank lines between members
	CommentBetween string // comment line printed before every member ("" = none)
	AnnSameLine    bool   // annotations on the same line as the declaration
	JoinMembers    bool   // consecutive members share a line
	JoinStmts      bool   // statements of a body share one line
	NoFinalNewline bool
	BlankAfterPkg  int
	ImportComment  string // comment line between imports
	ModsOwnLine    bool // modifiers on the line before the type
	BeforeParen    string // text between a declared method's name and its parameter list ("", " ", " /* c */ ")
	Leading        string // white space in front of everything ("\n\n", "   \n", "  ")
	CloseJoined    bool   // the closing brace of the class follows the last member on its line
}

func DefaultLayout() Layout { return Layout{Indent: "    ", BlankAfterPkg: 1} }

type printer struct {
	sb      strings.Builder
	line    int
	col     int
	byteCol int
}

func (p *printer) pos() Pos { return Pos{Line: p.line, Col: p.col, ByteCol: p.byteCol, Offset: p.sb.Len()} }

func (p *printer) w(s string) {
	for _, r := range s {
		p.sb.WriteRune(r)
		if r == '\n' {
			p.line++
			p.col = 0
			p.byteCol = 0
		} else {
			p.col++
			p.byteCol += utf8.RuneLen(r)
		}
	}
}

func (p *printer) nl() { p.w("\n") }

// Print renders the class and fills all recorded positions.
func Print(c *Class, l Layout) string {
	p := &printer{line: 1}
	if l.Indent == "" && !l.JoinMembers {
		// an empty indent is legal; nothing to do
	}
	p.w(l.Leading)
	if c.HeaderComment != "" {
		p.w(c.HeaderComment)
		p.nl()
	}
	if c.Pkg != "" {
		c.PkgLine = p.line
		p.w("package " + c.Pkg + ";")
		p.nl()
		for i := 0; i < l.BlankAfterPkg; i++ {
			p.nl()
		}
	}
	c.ImportLine = nil
	for i, im := range c.Imports {
		if i > 0 && l.ImportComment != "" {
			p.w(l.ImportComment)
			p.nl()
		}
		c.ImportLine = append(c.ImportLine, p.line)
		p.w("import " + im + ";")
		p.nl()
	}
	if len(c.Imports) > 0 {
		p.nl()
	}
	for _, a := range c.Anns {
		p.w(a.String())
		if l.AnnSameLine {
			p.w(" ")
		} else {
			p.nl()
		}
	}
	for _, m := range c.Mods {
		p.w(m + " ")
	}
	p.w(c.Kind + " ")
	c.NamePos = p.pos()
	p.w(c.Name + c.TypeParams)
	if c.Extends != "" {
		p.w(" extends " + c.Extends)
	}
	if len(c.Implements) > 0 {
		kw := " implements "
		if c.Kind == "interface" {
			kw = " extends "
		}
		p.w(kw + strings.Join(c.Implements, ", "))
	}
	if l.BraceOwnLine {
		p.nl()
		p.w("{")
	} else {
		p.w(" {")
	}
	p.nl()
	ind := l.Indent
	atLineStart := true
	for i, m := range c.Members {
		if i > 0 && !l.JoinMembers {
			for b := 0; b < l.BlankBetween; b++ {
				p.nl()
			}
		}
		if l.CommentBetween != "" && !l.JoinMembers {
			p.w(ind + l.CommentBetween)
			p.nl()
		}
		if atLineStart {
			p.w(ind)
		} else {
			p.w(" ")
		}
		switch {
		case m.Field != nil:
			printField(p, m.Field, l)
		case m.Method != nil:
			printMethod(p, m.Method, l, ind)
		default:
			p.w(strings.ReplaceAll(m.Raw, "\n", "\n"+ind))
		}
		if l.JoinMembers && i+1 < len(c.Members) {
			atLineStart = false
		} else if l.CloseJoined && i+1 == len(c.Members) {
			p.w(" ")
		} else {
			p.nl()
			atLineStart = true
		}
	}
	p.w("}")
	if !l.NoFinalNewline {
		p.nl()
	}
	return p.sb.String()
}

func printAnns(p *printer, anns []Ann, l Layout, ind string) {
	for _, a := range anns {
		p.w(a.String())
		if l.AnnSameLine || l.JoinMembers {
			p.w(" ")
		} else {
			p.nl()
			p.w(ind)
		}
	}
}

func printField(p *printer, f *Field, l Layout) {
	printAnns(p, f.Anns, l, l.Indent)
	for _, m := range f.Mods {
		p.w(m + " ")
	}
	p.w(f.Type + " ")
	f.Pos = p.pos()
	p.w(f.Name)
	if len(f.Init) > 0 {
		p.w(" = ")
		printFrags(p, f.Init, nil, "")
	}
	p.w(";")
}

func printFrags(p *printer, frags []Frag, m *Method, ind string) {
	for _, f := range frags {
		if f.Site != nil {
			f.Site.Pos = p.pos()
			f.Site.EndLine = p.line
			p.w(f.Site.Name)
			if m != nil {
				m.Sites = append(m.Sites, f.Site)
			}
			continue
		}
		p.w(strings.ReplaceAll(f.Text, "\n", "\n"+ind))
	}
}

func printMethod(p *printer, m *Method, l Layout, ind string) {
	m.Sites = nil
	m.DeclPos = p.pos()
	printAnns(p, m.Anns, l, ind)
	if len(m.Mods) > 0 && l.ModsOwnLine && !l.JoinMembers {
		p.w(strings.Join(m.Mods, " "))
		p.nl()
		p.w(ind)
	} else {
		for _, md := range m.Mods {
			p.w(md + " ")
		}
	}
	m.TypePos = p.pos()
	if m.TypeParams != "" {
		p.w(m.TypeParams + " ")
	}
	if !m.IsCtor {
		p.w(m.Ret + " ")
	}
	m.NamePos = p.pos()
	p.w(m.Name + l.BeforeParen + "(")
	for i, pa := range m.Params {
		if i > 0 {
			p.w(", ")
		}
		for _, a := range pa.Anns {
			p.w(a.String() + " ")
		}
		p.w(pa.Type + " " + pa.Name)
	}
	p.w(")")
	if m.Throws != "" {
		p.w(" throws " + m.Throws)
	}
	if m.NoBody {
		m.CloseLine = p.line
		p.w(";")
		return
	}
	join := l.JoinStmts || l.JoinMembers
	if l.BraceOwnLine && !join {
		p.nl()
		p.w(ind + "{")
	} else {
		p.w(" {")
	}
	if !join {
		p.nl()
	}
	for _, s := range m.Body {
		if join {
			p.w(" ")
		} else {
			p.w(ind + l.Indent)
		}
		printFrags(p, s.Frags, m, ind+l.Indent)
		if !join {
			p.nl()
		}
	}
	if join {
		p.w(" ")
	} else {
		p.w(ind)
	}
	m.CloseLine = p.line
	p.w("}")
}

// Methods lists the method members in order.
func (c *Class) Methods() []*Method {
	var r []*Method
	for _, m := range c.Members {
		if m.Method != nil {
			r = append(r, m.Method)
		}
	}
	return r
}

func (c *Class) Fields() []*Field {
	var r []*Field
	for _, m := range c.Members {
		if m.Field != nil {
			r = append(r, m.Field)
		}
	}
	return r
}
