package checks

import (
	"encoding/json"
	"fmt"
	"os"
	"path/filepath"
	"sort"
	"strings"
	"time"

	"github.com/modernizing/coca/pkg/application/api"
	"github.com/modernizing/coca/pkg/application/bs"
	"github.com/modernizing/coca/pkg/application/call"
	"github.com/modernizing/coca/pkg/application/rcall"
	"github.com/modernizing/coca/pkg/domain/api_domain"
	"github.com/modernizing/coca/pkg/domain/core_domain"
	"verif/engine"
)

// The file alphabet: every file is built to leave residue in the passes' package-level state and to be
// sensitive to residue left by others (names reused with different types, missing declarations, ...).
var c07Files = []struct{ Name, Tag, Src string }{
	{"SvcA", "field-x-of-q.B", `package a;

import q.B;

public class SvcA {
    private B x;

    public void run() {
        x.go();
    }
}
`},
	{"SvcB", "param-x-of-r.B", `package a;

import r.B;

public class SvcB {
    public void run(B x, int n) {
        x.go();
    }

    @Override
    public String toString() {
        return "b";
    }
}
`},
	{"SvcC", "local-x-and-undeclared-y", `package a;

import s.T3;

public class SvcC {
    public void run() {
        T3 x = null;
        x.go();
        y.go();
    }
}
`},
	{"SvcD", "inherited-field-x", `package a;

public class SvcD extends SvcA {
    public void run2() {
        x.go();
        helper();
    }

    private void helper() {
    }
}
`},
	{"ImplA", "implements-imported-iface", `package a;

import x.Iface;

public class ImplA implements Iface {
    public void act() {
    }
}
`},
	{"OtherIface", "imports-like-named-iface", `package b;

import y.Iface;
import y.Base;

public class OtherIface {
    private Base b;

    public int getB() {
        return 1;
    }

    public void setB(int v) {
    }
}
`},
	{"CtlOne", "controller-with-base-path", `package web;

import org.springframework.web.bind.annotation.*;

@RestController
@RequestMapping("/one")
public class CtlOne {
    @PostMapping("/create")
    public String create(@RequestBody Book book, int n) {
        return "x";
    }

    @GetMapping("/list")
    public String list() {
        return "y";
    }
}
`},
	{"CtlTwo", "controller-without-base-path", `package web;

import org.springframework.web.bind.annotation.*;

@RestController
public class CtlTwo {
    @GetMapping("/two")
    public String two(String q) {
        return "z";
    }

    private void helper() {
    }
}
`},
	{"PlainMapped", "no-controller-annotation", `package web;

public class PlainMapped {
    @GetMapping("/ghost")
    public String ghost() {
        return "g";
    }

    public String after(String s) {
        return s;
    }
}
`},
	{"Child", "extends-calls-undeclared-b", `package b;

public class Child extends Base {
    public void work() {
        b.touch();
    }

    @Override
    public void over() {
    }
}
`},
	{"Shape", "interface", `package a;

public interface Shape {
    int area(int scale);
}
`},
	{"Empty", "no-methods", `package a;

public class Empty {
    private int n;
}
`},
	{"BaseRepo", "interface-with-override", `package a;

import java.util.List;

public interface BaseRepo extends ReadRepo {
    @Override
    List<String> findAll();

    int CONSTANT = 1;
}
`},
	{"OrderRepo", "interface-without-override", `package a;

public interface OrderRepo {
    int count();

    String findName(long id);
}
`},
	{"Status", "enum-with-members", `package a;

import q.B;

public enum Status {
    OPEN("o"), CLOSED("c");

    private final String code;
    private B x;

    Status(String code) {
        this.code = code;
    }

    public String getCode() {
        x.go();
        return code;
    }

    @Override
    public String toString() {
        return code;
    }
}
`},
	{"Marker", "annotation-type", `package a;

import r.B;

public @interface Marker {
    String value() default "";
    int CONST = 1;
}
`},
	{"Point", "record", `package a;

import s.T3;

public record Point(int px, T3 x) {
    public int norm() {
        x.go();
        return px;
    }
}
`},
	{"Outer", "nested-types", `package a;

public class Outer {
    private int depth;

    public void top() {
        helper();
    }

    private void helper() {
    }

    static class Inner {
        private String innerField;

        void innerMethod(String x) {
            x.length();
        }
    }

    enum Kind {
        A, B;

        void kindMethod() {
        }
    }
}
`},
	{"TwoInner", "two-sibling-member-classes", `package a;

public class TwoInner {
    private int id;

    static class Item {
        int qty;

        void bump() {
        }
    }

    static class Address {
        String street;

        void clear() {
        }
    }

    void touch() {
    }
}
`},
	{"DeepInner", "member-classes-nested-two-deep", `package a;

public class DeepInner {
    static class Level1 {
        static class Level2 {
            void deep() {
            }
        }

        void mid() {
        }
    }

    void top() {
    }
}
`},
	{"Defaulted", "interface-default-method-with-undeclared-receiver-x", `package a;

public interface Defaulted {
    default void act() {
        x.run();
    }
}
`},
	{"Levels", "enum-with-method-using-undeclared-receiver-x", `package a;

public enum Levels {
    LOW, HIGH;

    void act() {
        x.run();
    }
}
`},
	{"AccountClient", "interface-with-type-level-mapping", `package web;

import org.springframework.web.bind.annotation.*;

@RequestMapping("/accounts")
public interface AccountClient {
    @GetMapping("/{id}")
    String get(String id);
}
`},
	{"Routes", "annotation-type-with-type-level-mapping", `package web;

import org.springframework.web.bind.annotation.*;

@RequestMapping("/routes")
public @interface Routes {
    String value();
}
`},
	{"BlogService", "interface-with-service-method", `package svc;

public interface BlogService {
    @ServiceMethod
    int count();

    void plain();
}
`},
	{"BlogServiceImpl", "implements-service-method-interface", `package impl;

import svc.BlogService;

public class BlogServiceImpl implements BlogService {
    public int count() {
        return 1;
    }

    public void plain() {
    }
}
`},
	{"BlogFacade", "delegates-to-service-method-interface-without-implementing-it", `package web;

import svc.BlogService;

public class BlogFacade {
    private BlogService service;

    public int count() {
        return service.count();
    }
}
`},
	{"BlogController", "controller-delegating-to-service-method-interface", `package web;

import org.springframework.web.bind.annotation.*;
import svc.BlogService;

@RestController
@RequestMapping("/api")
public class BlogController {
    private BlogService service;

    @GetMapping("/count")
    public int count() {
        return service.count();
    }

    private int helper(int n) {
        return n;
    }
}
`},
	{"UrlReader", "uses-unimported-type-a.Url", `package a;

public class UrlReader {
    private Url target;

    public void read() {
        target.open();
    }
}
`},
	{"URLWriter", "uses-unimported-type-b.URL", `package b;

public class URLWriter {
    private URL target;

    public void write() {
        target.open();
    }
}
`},
	{"Url", "type-a.Url", `package a;

public class Url {
    public void open() {
    }
}
`},
	{"URL", "type-b.URL-differs-from-a.Url-in-case-only", `package b;

public class URL {
    public void open() {
    }
}
`},
	{"Blank", "zero-byte-file", ""},
	{"OnlyComments", "comments-only-file", "// nothing is declared in this file\n/* TODO: or ever */\n\n"},
}

type c07Op struct {
	Kind string // ident | full | bs | api | call | rcall | call-lookup
	File int
}

func (o c07Op) String() string {
	if o.File >= 0 {
		return o.Kind + "(" + c07Files[o.File].Name + ")"
	}
	return o.Kind + "(G)"
}

func c07Alphabet(kinds ...string) []c07Op {
	var ops []c07Op
	for _, k := range kinds {
		switch k {
		case "ident", "full", "bs", "api":
			for i := range c07Files {
				ops = append(ops, c07Op{k, i})
			}
		default:
			ops = append(ops, c07Op{k, -1})
		}
	}
	return ops
}

var c07AllOps = c07Alphabet("ident", "full", "bs", "api", "call", "rcall", "call-lookup", "api-chains", "call-deep")

func c07OpIndex(o c07Op) int {
	for i, x := range c07AllOps {
		if x == o {
			return i
		}
	}
	panic("c07: unknown op")
}

// ---- per-process environment ------------------------------------------------------------------------

type c07Env struct {
	dir      string
	idents   []core_domain.CodeDataStruct
	identMap map[string]core_domain.CodeDataStruct
	deps     []core_domain.CodeDataStruct
	pristine map[int]string
	graph    []core_domain.CodeDataStruct
}

var c07env *c07Env

func c07Setup(dir string) *c07Env {
	if c07env != nil && c07env.dir == dir {
		return c07env
	}
	for _, f := range c07Files {
		for _, p := range []string{filepath.Join(dir, "all", f.Name+".java"), filepath.Join(dir, "one", f.Name, f.Name+".java")} {
			if b, err := os.ReadFile(p); err == nil && string(b) == f.Src {
				continue
			}
			os.MkdirAll(filepath.Dir(p), 0o755)
			tmp := fmt.Sprintf("%s.%d.tmp", p, os.Getpid())
			if err := os.WriteFile(tmp, []byte(f.Src), 0o644); err != nil {
				panic(err)
			}
			os.Rename(tmp, p)
		}
	}
	e := &c07Env{dir: dir, pristine: map[int]string{}}
	if engine.Reset == nil {
		panic("c07: reset hook missing (binary must be built with the verif overlay)")
	}
	engine.Reset()
	var all []string
	for _, f := range c07Files {
		all = append(all, filepath.Join(dir, "all", f.Name+".java"))
	}
	e.idents = identPass(all)
	e.identMap = core_domain.BuildIdentifierMap(e.idents)
	e.deps = fullPass(e.idents, all)
	engine.Reset()
	// a small cyclic call model for the graph operations
	g := GModel{Methods: []GMethod{
		{Pkg: "p", Class: "A", Name: "a", Calls: []GCall{{Pkg: "p", Class: "A", Name: "b"}, {Pkg: "p", Class: "A", Name: "b"}}},
		{Pkg: "p", Class: "A", Name: "b", Calls: []GCall{{Pkg: "p", Class: "A", Name: "c"}}},
		{Pkg: "p", Class: "A", Name: "c", Calls: []GCall{{Pkg: "p", Class: "A", Name: "a"}, {Pkg: "p", Class: "A", Name: "c"}}},
		// a chain that uses most of the expansion budget of one call-graph run (the budget is a package-level counter)
		{Pkg: "p", Class: "D", Name: "d0", Calls: []GCall{{Pkg: "p", Class: "D", Name: "d1"}}},
		{Pkg: "p", Class: "D", Name: "d1", Calls: []GCall{{Pkg: "p", Class: "D", Name: "d2"}}},
		{Pkg: "p", Class: "D", Name: "d2", Calls: []GCall{{Pkg: "p", Class: "D", Name: "d3"}}},
		{Pkg: "p", Class: "D", Name: "d3", Calls: []GCall{{Pkg: "p", Class: "D", Name: "d4"}}},
		{Pkg: "p", Class: "D", Name: "d4", Calls: []GCall{{Pkg: "p", Class: "D", Name: "d5"}}},
		{Pkg: "p", Class: "D", Name: "d5", Calls: []GCall{{Pkg: "p", Class: "D", Name: "d6"}}},
		{Pkg: "p", Class: "D", Name: "d6"},
	}}
	e.graph = g.ToDeps()
	c07env = e
	return e
}

func (e *c07Env) relJSON(v interface{}) string {
	b, err := json.MarshalIndent(v, "", " ")
	if err != nil {
		return "UNMARSHALABLE: " + err.Error()
	}
	return strings.ReplaceAll(string(b), e.dir, "$DIR")
}

func sortFunctions(nodes []core_domain.CodeDataStruct) {
	for i := range nodes {
		fs := nodes[i].Functions
		sort.SliceStable(fs, func(a, b int) bool {
			if fs[a].Name != fs[b].Name {
				return fs[a].Name < fs[b].Name
			}
			if fs[a].Position.StartLine != fs[b].Position.StartLine {
				return fs[a].Position.StartLine < fs[b].Position.StartLine
			}
			return fs[a].Position.StartLinePosition < fs[b].Position.StartLinePosition
		})
	}
}

func (e *c07Env) run(op c07Op) string {
	switch op.Kind {
	case "ident":
		return e.relJSON(identPass([]string{filepath.Join(e.dir, "all", c07Files[op.File].Name+".java")}))
	case "full":
		nodes := fullPass(e.idents, []string{filepath.Join(e.dir, "all", c07Files[op.File].Name+".java")})
		sortFunctions(nodes)
		return e.relJSON(nodes)
	case "bs":
		app := bs.NewBadSmellApp()
		nodes := app.AnalysisPath(filepath.Join(e.dir, "one", c07Files[op.File].Name))
		list := app.IdentifyBadSmell(nodes, nil)
		var keep []interface{}
		for _, b := range list {
			if b.Bs == "graphConnectedCall" {
				continue
			}
			keep = append(keep, b)
		}
		return e.relJSON(keep)
	case "api":
		app := new(api.JavaApiApp)
		apis := app.AnalysisPath(filepath.Join(e.dir, "one", c07Files[op.File].Name), e.deps, e.identMap, map[string]string{})
		return e.relJSON(apis)
	case "call":
		return call.NewCallGraph().Analysis("p.A.a", e.graph, false)
	case "call-lookup":
		return call.NewCallGraph().Analysis("p.A.c", e.graph, true)
	case "call-deep":
		return call.NewCallGraph().Analysis("p.D.d0", e.graph, false)
	case "api-chains":
		// the other entry point of the call package: one chain per API, two APIs (the deep chain last)
		apis := []api_domain.RestAPI{
			{Uri: "/a", HttpMethod: "GET", PackageName: "p", ClassName: "A", MethodName: "a"},
			{Uri: "/d", HttpMethod: "POST", PackageName: "p", ClassName: "D", MethodName: "d0"},
		}
		dot, sizes := call.NewCallGraph().AnalysisByFiles(apis, e.graph, nil)
		return dot + e.relJSON(sizes)
	case "rcall":
		return rcall.NewRCallGraph().Analysis("p.A.a", e.graph, func(map[string][]string) {})
	}
	panic("c07: bad op")
}

type c07Task struct {
	Dir string `json:"dir"`
	Seq []int  `json:"seq"`
	Op  int    `json:"op"`
}

func c07Describe(t c07Task) string {
	var p []string
	for _, s := range t.Seq {
		p = append(p, c07AllOps[s].String())
	}
	return "history [" + strings.Join(p, " ; ") + "] then " + c07AllOps[t.Op].String()
}

func firstDiff(a, b string) string {
	la, lb := strings.Split(a, "\n"), strings.Split(b, "\n")
	for i := 0; i < len(la) || i < len(lb); i++ {
		x, y := "<end>", "<end>"
		if i < len(la) {
			x = la[i]
		}
		if i < len(lb) {
			y = lb[i]
		}
		if x != y {
			ctx := ""
			for j := i - 1; j >= 0 && j >= i-12; j-- {
				t := strings.TrimSpace(la[j])
				if strings.HasPrefix(t, "\"Name\"") || strings.HasPrefix(t, "\"NodeName\"") || strings.HasPrefix(t, "\"FunctionName\"") {
					ctx = " (near " + t + ")"
					break
				}
			}
			return fmt.Sprintf("line %d: pristine %s | after history %s%s", i+1, strings.TrimSpace(x), strings.TrimSpace(y), ctx)
		}
	}
	return "equal"
}

func diffField(a, b string) string {
	la, lb := strings.Split(a, "\n"), strings.Split(b, "\n")
	for i := 0; i < len(la) && i < len(lb); i++ {
		if la[i] != lb[i] {
			t := strings.TrimSpace(la[i])
			if j := strings.Index(t, ":"); j > 0 && strings.HasPrefix(t, "\"") {
				return strings.Trim(t[:j], "\"")
			}
			return "structure"
		}
	}
	return "length"
}

func init() {
	engine.Tasks["c07"] = func(in json.RawMessage) interface{} {
		var t c07Task
		json.Unmarshal(in, &t)
		e := c07Setup(t.Dir)
		op := c07AllOps[t.Op]
		want, ok := e.pristine[t.Op]
		if !ok {
			engine.Reset()
			want = e.run(op)
			e.pristine[t.Op] = want
		}
		engine.Reset()
		for _, s := range t.Seq {
			e.run(c07AllOps[s])
		}
		got := e.run(op)
		v := engine.TaskVerdict{Outcome: engine.Hash(got)}
		if engine.StateDump != nil {
			v.State = engine.Hash(strings.ReplaceAll(engine.StateDump(), e.dir, "$DIR"))
		}
		if got != want {
			tag := "G"
			if op.File >= 0 {
				tag = c07Files[op.File].Name
			}
			v.Violations = append(v.Violations, engine.Violation{Clause: op.Kind, Kind: tag + ":" + diffField(want, got),
				Detail: fmt.Sprintf("%s: result differs from the result of the same operation in a pristine process: %s", c07Describe(t), firstDiff(want, got)),
				Expected: want, Observed: got})
		}
		return v
	}

	engine.Register(&engine.Spec{
		ID:    "C07",
		Title: "A file's analysis result is independent of other files, order and repetition",
		Rule: "X2 explicit-state BFS over operation sequences from the pristine process state; operations = run one pass (identifier, full, bad-smell, API) on one of 36 residue-leaving files, or build the call / reverse-call / lookup graph of a cyclic model; " +
			"state = canonical dump of every package-level variable of coca's packages (auto-discovered), de-duplicated by hash; invariant on every transition: the operation's observable result equals its result in a pristine process. " +
			"Per-pass alphabets are explored deeper than the mixed alphabet. Non-trivial = transition from a non-pristine state.",
		Assumptions: []string{
			"operating on single files in sequence is equivalent to file lists in that order: checked for lists of two (thorough: three) files by the file-lists section, which runs each pass over the list in one call",
			"identifier set held fixed (computed once from the pristine state over all files)",
			"state canonicalisation: all package-level variables of github.com/modernizing/coca/pkg/...; ANTLR DFA caches in languages/* are excluded (semantically transparent memoisation); a wrong merge could only prune and the no-dedup depth-2 cross-check covers it",
			"graphConnectedCall findings carry no file and are not part of a file's slice",
		},
		Custom: c07Explore,
	})
}

func c07Explore(ctx *engine.Ctx) *engine.Report {
	rep := &engine.Report{Coverage: map[string]interface{}{}, Assumptions: ctx.Spec.Assumptions}
	dir := filepath.Join(tmpRoot(), fmt.Sprintf("mc-c07-%d", os.Getpid()))
	os.MkdirAll(dir, 0o755)
	defer os.RemoveAll(dir)
	type section struct {
		name  string
		ops   []c07Op
		depth int
		dedup bool
	}
	dq := func(q, t int) int {
		if ctx.Tier == "thorough" {
			return t
		}
		return q
	}
	secs := []section{
		{"mixed-no-dedup", c07AllOps, 2, false},
		{"ident", c07Alphabet("ident"), dq(4, 8), true},
		{"full", c07Alphabet("full"), dq(4, 8), true},
		{"bs", c07Alphabet("bs"), dq(4, 8), true},
		{"api", c07Alphabet("api"), dq(4, 8), true},
		{"graphs", c07Alphabet("call", "rcall", "call-lookup", "api-chains", "call-deep"), dq(5, 8), true},
		{"mixed", c07AllOps, dq(2, 3), true},
	}
	var cands []engine.Candidate
	states, transitions, nontrivial := 0, 0, 0
	outcomes := map[string]bool{}
	perSection := map[string]interface{}{}
	exhaustive := true
	var samples []interface{}
	for _, sec := range secs {
		seen := map[string]bool{}
		frontier := [][]int{{}}
		secStates, secTrans, completed := 0, 0, 0
		closed := false
		for level := 1; level <= sec.depth; level++ {
			if time.Now().After(ctx.Deadline) {
				exhaustive = false
				break
			}
			var tasks []interface{}
			var meta []c07Task
			for _, seq := range frontier {
				for _, op := range sec.ops {
					t := c07Task{Dir: dir, Seq: seq, Op: c07OpIndex(op)}
					tasks = append(tasks, t)
					meta = append(meta, t)
				}
			}
			results, err := engine.RunTasks(ctx, "c07", tasks)
			if err != nil {
				rep.HarnessErr = append(rep.HarnessErr, err.Error())
			}
			var next [][]int
			for i, r := range results {
				t := meta[i]
				if r.Err != "" {
					rep.HarnessErr = append(rep.HarnessErr, c07Describe(t)+": "+r.Err)
					continue
				}
				secTrans++
				if len(t.Seq) > 0 {
					nontrivial++
				}
				var tv engine.TaskVerdict
				if r.Panic != "" {
					tv.Violations = []engine.Violation{{Clause: "panic", Kind: r.Frame, Detail: c07Describe(t) + ": panic in " + r.Frame + ": " + r.Panic}}
					tv.State = "PANIC:" + c07Describe(t)
				} else {
					json.Unmarshal(r.Out, &tv)
				}
				outcomes[tv.Outcome] = true
				for _, v := range tv.Violations {
					tag := "graph"
					if f := c07AllOps[t.Op].File; f >= 0 {
						tag = c07Files[f].Tag
					}
					cands = append(cands, engine.Candidate{Violation: v, Tags: []string{tag}, Desc: c07Describe(t), Task: "c07", Input: t, Cost: len(t.Seq)})
				}
				if len(samples) < 4 && (i == 0 || i == len(results)/2) {
					samples = append(samples, map[string]interface{}{"section": sec.name, "transition": c07Describe(t), "state_hash": tv.State, "holds": len(tv.Violations) == 0})
				}
				if !sec.dedup || !seen[tv.State] {
					seen[tv.State] = true
					next = append(next, append(append([]int{}, t.Seq...), t.Op))
				}
			}
			frontier = next
			completed = level
			if len(frontier) == 0 {
				closed = true
				completed = sec.depth
				break
			}
		}
		secStates = len(seen) + 1
		if !sec.dedup {
			secStates = secTrans + 1
		}
		states += secStates
		transitions += secTrans
		perSection[sec.name] = map[string]interface{}{"operations": len(sec.ops), "depth_completed": completed, "depth_bound": sec.depth,
			"distinct_hidden_states": len(seen) + 1, "transitions": secTrans, "dedup": sec.dedup, "state_space_closed": closed}
		if completed < sec.depth {
			exhaustive = false
		}
	}
	// ---- file lists: one pass over an ordered list of files against the same pass over each file alone ---------
	{
		n, done := c07FileLists(dir, ctx, &cands)
		transitions += n
		nontrivial += n
		perSection["file-lists"] = map[string]interface{}{"passes": c07ListPasses, "lists": n, "list_lengths": done, "dedup": false}
		if !strings.HasSuffix(done, "complete") {
			exhaustive = false
		}
	}
	// ---- command sequences: several commands in one process, over two projects with like-named types -----------
	{
		depth := dq(4, 5)
		nseq, viol := c07CommandSequences(dir, depth, ctx, &cands)
		transitions += nseq
		perSection["command-sequences"] = map[string]interface{}{"operations": len(c07CmdOps), "depth_completed": depth, "depth_bound": depth,
			"sequences": nseq, "violating_sequences": viol, "dedup": false}
	}
	engine.ConfirmAndReport(ctx, rep, cands)
	cov := rep.Coverage
	cov["states"] = states
	cov["transitions"] = transitions
	cov["traces_validated_against_impl"] = transitions
	cov["evaluations"] = transitions
	cov["distinct_nontrivial"] = nontrivial
	cov["distinct_outcomes"] = len(outcomes)
	cov["rule"] = ctx.Spec.Rule
	cov["samples"] = samples
	cov["exhaustive"] = exhaustive && len(rep.HarnessErr) == 0
	cov["per_section"] = perSection
	cov["files"] = len(c07Files)
	cov["bound_completed"] = "see per_section"
	return rep
}

// ---- command sequences ------------------------------------------------------------------------------------------

type c07CmdOp struct {
	Proj string
	Name string
	Args []string
}

var c07CmdOps = []c07CmdOp{
	{"shop", "analysis", []string{"analysis", "-p", "src", "-i=true"}},
	{"shop", "api-forced", []string{"api", "-f=true", "-p", "src", "-c=false", "-s=false", "-a", "", "-r", "", "-d", "coca_reporter/deps.json"}},
	{"shop", "api-not-forced", []string{"api", "-f=false", "-p", "src", "-c=false", "-s=false", "-a", "", "-r", "", "-d", "coca_reporter/deps.json"}},
	{"library", "analysis", []string{"analysis", "-p", "src", "-i=true"}},
	{"library", "api-forced", []string{"api", "-f=true", "-p", "src", "-c=false", "-s=false", "-a", "", "-r", "", "-d", "coca_reporter/deps.json"}},
	{"library", "api-not-forced", []string{"api", "-f=false", "-p", "src", "-c=false", "-s=false", "-a", "", "-r", "", "-d", "coca_reporter/deps.json"}},
}

var c07CmdProjects = map[string][]FileSpec{
	"shop": {
		{Path: "shop/src/shop/Item.java", Content: "package shop;\n\npublic class Item {\n    private String sku;\n}\n"},
		{Path: "shop/src/shop/ItemController.java", Content: "package shop;\n\nimport org.springframework.web.bind.annotation.*;\n\n@RestController\n@RequestMapping(\"/items\")\npublic class ItemController {\n    @PostMapping(\"/create\")\n    public String create(@RequestBody Item item) {\n        return \"x\";\n    }\n}\n"},
	},
	"library": {
		{Path: "library/src/library/Item.java", Content: "package library;\n\npublic class Item {\n    private String isbn;\n    private String title;\n}\n"},
		{Path: "library/src/library/ItemController.java", Content: "package library;\n\nimport org.springframework.web.bind.annotation.*;\n\n@RestController\n@RequestMapping(\"/books\")\npublic class ItemController {\n    @PostMapping(\"/add\")\n    public String add(@RequestBody Item item) {\n        return \"y\";\n    }\n\n    @GetMapping(\"/all\")\n    public String all() {\n        return \"z\";\n    }\n}\n"},
	},
}

// c07RunCmdSeq materialises both projects, runs the sequence in one child process and returns the reports per project.
func c07RunCmdSeq(seq []int) (map[string]string, string) {
	var files []FileSpec
	for _, p := range []string{"shop", "library"} {
		files = append(files, c07CmdProjects[p]...)
	}
	root, cleanup := materialise(files)
	defer cleanup()
	var cmds [][]string
	for _, i := range seq {
		op := c07CmdOps[i]
		cmds = append(cmds, append([]string{op.Proj}, op.Args...))
	}
	r := runCLISeq(root, cmds)
	if r.Exit != 0 {
		return nil, fmt.Sprintf("exit status %d: %s", r.Exit, trimTo(r.Stderr+r.Stdout, 500))
	}
	out := map[string]string{}
	for _, p := range []string{"shop", "library"} {
		for _, f := range []string{"deps.json", "identify.json", "apis.json", "api.dot"} {
			if b, err := os.ReadFile(filepath.Join(root, p, "coca_reporter", f)); err == nil {
				out[p+"/"+f] = strings.ReplaceAll(string(b), root, "$ROOT")
			}
		}
	}
	return out, ""
}

type c07SeqTask struct {
	Seq []int `json:"seq"`
}

func c07SeqDescribe(seq []int) string {
	var p []string
	for _, i := range seq {
		p = append(p, c07CmdOps[i].Proj+":"+c07CmdOps[i].Name)
	}
	return strings.Join(p, " ; ")
}

// c07SeqVerdict: every report present after the sequence equals the report of the canonical fresh-process pipeline
// of its project (analysis, then the forced api scan).
func c07SeqVerdict(seq []int) []engine.Violation {
	ref := map[string]string{}
	for _, pipeline := range [][]int{{0, 1}, {3, 4}} {
		o, why := c07RunCmdSeq(pipeline)
		if why != "" {
			return []engine.Violation{engine.V("command-sequences", "reference-pipeline-failed", "%s: %s", c07SeqDescribe(pipeline), why)}
		}
		for k, v := range o {
			ref[k] = v
		}
	}
	got, why := c07RunCmdSeq(seq)
	if why != "" {
		return []engine.Violation{engine.V("command-sequences", "command-failed", "sequence [%s] in one process: %s", c07SeqDescribe(seq), why)}
	}
	var ks []string
	for k := range got {
		ks = append(ks, k)
	}
	sort.Strings(ks)
	for _, k := range ks {
		if got[k] != ref[k] {
			return []engine.Violation{engine.V("command-sequences", filepath.Base(k)+"-depends-on-history", "after the commands [%s] in one process, %s differs from the report of a fresh process running only that project's pipeline: %s", c07SeqDescribe(seq), k, firstDiff(ref[k], got[k]))}
		}
	}
	return nil
}

func init() {
	engine.Tasks["c07seq"] = func(in json.RawMessage) interface{} {
		var t c07SeqTask
		json.Unmarshal(in, &t)
		return engine.TaskVerdict{Violations: c07SeqVerdict(t.Seq)}
	}
}

// c07CommandSequences enumerates every admissible sequence up to the depth (an api command needs the analysis
// of its project earlier in the sequence) and judges each in task processes.
func c07CommandSequences(dir string, depth int, ctx *engine.Ctx, cands *[]engine.Candidate) (int, int) {
	var seqs [][]int
	var rec func(cur []int)
	rec = func(cur []int) {
		if len(cur) > 0 {
			seqs = append(seqs, append([]int{}, cur...))
		}
		if len(cur) == depth {
			return
		}
		for i, op := range c07CmdOps {
			if op.Name != "analysis" {
				ok := false
				for _, j := range cur {
					ok = ok || (c07CmdOps[j].Proj == op.Proj && c07CmdOps[j].Name == "analysis")
				}
				if !ok {
					continue
				}
			}
			rec(append(cur, i))
		}
	}
	rec(nil)
	var inputs []interface{}
	for _, s := range seqs {
		inputs = append(inputs, c07SeqTask{Seq: s})
	}
	results, err := engine.RunTasks(ctx, "c07seq", inputs)
	if err != nil {
		panic(err)
	}
	viol := 0
	for i, r := range results {
		var v engine.TaskVerdict
		if r.Err != "" || r.Panic != "" {
			*cands = append(*cands, engine.Candidate{Violation: engine.V("command-sequences", "task-failed", "sequence [%s]: %s%s", c07SeqDescribe(seqs[i]), r.Err, r.Panic),
				Desc: c07SeqDescribe(seqs[i]), Task: "c07seq", Input: inputs[i], Cost: len(seqs[i])})
			continue
		}
		json.Unmarshal(r.Out, &v)
		for _, x := range v.Violations {
			viol++
			*cands = append(*cands, engine.Candidate{Violation: x, Desc: c07SeqDescribe(seqs[i]), Task: "c07seq", Input: inputs[i], Cost: len(seqs[i])})
		}
	}
	return len(seqs), viol
}

// ---- file lists -------------------------------------------------------------------------------------------------

var c07ListPasses = []string{"ident", "full", "bs", "api"}

type c07ListTask struct {
	Dir   string `json:"dir"`
	Pass  string `json:"pass"`
	Files []int  `json:"files"`
}

func c07ListDescribe(t c07ListTask) string {
	var names []string
	for _, f := range t.Files {
		names = append(names, c07Files[f].Name)
	}
	return t.Pass + " pass over the file list [" + strings.Join(names, ", ") + "]"
}

// c07ListEntries runs one pass over the files in that order (one directory walk, or one file list) and returns
// the entries it produced, one JSON text each, with paths cut down to the file name.
func (e *c07Env) c07ListEntries(pass string, files []int) []string {
	var out []string
	add := func(v interface{}) {
		b, _ := json.Marshal(v)
		out = append(out, string(b))
	}
	var list []string
	for _, f := range files {
		list = append(list, filepath.Join(e.dir, "all", c07Files[f].Name+".java"))
	}
	strip := []string{e.dir + "/all/"}
	dir := ""
	if pass == "bs" || pass == "api" {
		// a directory whose walk order is the list order
		dir = filepath.Join(e.dir, fmt.Sprintf("list-%d", os.Getpid()))
		os.RemoveAll(dir)
		for i, f := range files {
			sub := filepath.Join(dir, fmt.Sprintf("%d_%s", i, c07Files[f].Name))
			os.MkdirAll(sub, 0o755)
			os.WriteFile(filepath.Join(sub, c07Files[f].Name+".java"), []byte(c07Files[f].Src), 0o644)
			strip = append(strip, sub+"/")
		}
		defer os.RemoveAll(dir)
	}
	switch pass {
	case "ident":
		for _, n := range identPass(list) {
			add(n)
		}
	case "full":
		nodes := fullPass(e.idents, list)
		sortFunctions(nodes)
		for _, n := range nodes {
			add(n)
		}
	case "bs":
		app := bs.NewBadSmellApp()
		nodes := app.AnalysisPath(dir)
		for _, n := range *nodes {
			add(n)
		}
		for _, b := range app.IdentifyBadSmell(nodes, nil) {
			if b.Bs != "graphConnectedCall" {
				add(b)
			}
		}
	case "api":
		app := new(api.JavaApiApp)
		for _, a := range app.AnalysisPath(dir, e.deps, e.identMap, map[string]string{}) {
			add(a)
		}
	}
	for i := range out {
		for _, s := range strip {
			out[i] = strings.ReplaceAll(out[i], s, "")
		}
	}
	sort.Strings(out)
	return out
}

func init() {
	engine.Tasks["c07list"] = func(in json.RawMessage) interface{} {
		var t c07ListTask
		json.Unmarshal(in, &t)
		e := c07Setup(t.Dir)
		var want []string
		for _, f := range t.Files {
			engine.Reset()
			want = append(want, e.c07ListEntries(t.Pass, []int{f})...)
		}
		sort.Strings(want)
		engine.Reset()
		got := e.c07ListEntries(t.Pass, t.Files)
		v := engine.TaskVerdict{Outcome: engine.Hash(strings.Join(got, "\n"))}
		w, g := strings.Join(want, "\n"), strings.Join(got, "\n")
		if w != g {
			v.Violations = append(v.Violations, engine.Violation{Clause: t.Pass + "-file-list", Kind: "entries-differ-from-the-files-alone",
				Detail:   fmt.Sprintf("%s: the entries differ from the union of the entries each file gives alone: %s", c07ListDescribe(t), firstDiff(w, g)),
				Expected: w, Observed: g})
		}
		return v
	}
}

// c07FileLists: every ordered pair of distinct files per pass; in the thorough tier also every ordered triple
// whose middle file declares nothing (the two class-less files) and every triple of the first 8 files.
func c07FileLists(dir string, ctx *engine.Ctx, cands *[]engine.Candidate) (int, string) {
	var inputs []interface{}
	var meta []c07ListTask
	push := func(pass string, files ...int) {
		t := c07ListTask{Dir: dir, Pass: pass, Files: files}
		inputs = append(inputs, t)
		meta = append(meta, t)
	}
	n := len(c07Files)
	for _, pass := range c07ListPasses {
		for a := 0; a < n; a++ {
			for b := 0; b < n; b++ {
				if a != b {
					push(pass, a, b)
				}
			}
		}
	}
	done := "ordered pairs"
	if ctx.Tier == "thorough" {
		done = "ordered pairs and triples (class-less middle file; first 8 files)"
		for _, pass := range c07ListPasses {
			for a := 0; a < n; a++ {
				for b := 0; b < n; b++ {
					for c := 0; c < n; c++ {
						if a == b || b == c || a == c {
							continue
						}
						if c07Files[b].Src == "" || c07Files[b].Name == "OnlyComments" || (a < 8 && b < 8 && c < 8) {
							push(pass, a, b, c)
						}
					}
				}
			}
		}
	}
	if time.Now().After(ctx.Deadline) {
		return 0, "not run (deadline)"
	}
	results, err := engine.RunTasks(ctx, "c07list", inputs)
	if err != nil {
		panic(err)
	}
	for i, r := range results {
		if r.Err != "" {
			*cands = append(*cands, engine.Candidate{Violation: engine.V("file-lists", "task-failed", "%s: %s", c07ListDescribe(meta[i]), r.Err),
				Desc: c07ListDescribe(meta[i]), Task: "c07list", Input: inputs[i], Cost: len(meta[i].Files)})
			continue
		}
		var v engine.TaskVerdict
		if r.Panic != "" {
			v.Violations = []engine.Violation{{Clause: "panic", Kind: r.Frame, Detail: c07ListDescribe(meta[i]) + ": panic in " + r.Frame + ": " + r.Panic}}
		} else {
			json.Unmarshal(r.Out, &v)
		}
		for _, x := range v.Violations {
			*cands = append(*cands, engine.Candidate{Violation: x, Tags: []string{c07Files[meta[i].Files[len(meta[i].Files)-1]].Tag}, Desc: c07ListDescribe(meta[i]), Task: "c07list", Input: inputs[i], Cost: len(meta[i].Files)})
		}
	}
	return len(inputs), done + ": complete"
}
