package checks

import (
	"fmt"
	"io"
	"os"
	"path/filepath"
	"sort"
	"strings"

	"github.com/modernizing/coca/pkg/adapter/cocafile"
	"github.com/modernizing/coca/pkg/application/analysis"
	"github.com/modernizing/coca/pkg/application/analysis/goapp"
	"github.com/modernizing/coca/pkg/application/analysis/pyapp"
	"github.com/modernizing/coca/pkg/domain/core_domain"
	"verif/engine"
)

// ---- C20, directory level: a tree of Go files through CommonAnalysis (what `coca_go analysis -p DIR` runs) ----

type c20dType struct {
	Name    string
	Kind    string // struct | interface
	Fields  []string
	Methods []string // struct: methods with this receiver; interface: method set
}

type c20dFile struct {
	Dir, Name, Pkg string
	Types          []c20dType
	Free           []string // exported free functions
	OwnImport      bool     // imports example.com/m/util (a package of the analysed module) and calls util.Do() in every method
}

func (f c20dFile) source() string {
	var sb strings.Builder
	if f.OwnImport {
		sb.WriteString("package " + f.Pkg + "\n\nimport (\n\t\"fmt\"\n\n\t\"example.com/m/util\"\n)\n\n")
	} else {
		sb.WriteString("package " + f.Pkg + "\n\nimport \"fmt\"\n\n")
	}
	for _, t := range f.Types {
		switch t.Kind {
		case "struct":
			sb.WriteString("type " + t.Name + " struct {\n")
			for _, fl := range t.Fields {
				sb.WriteString("\t" + fl + " string\n")
			}
			sb.WriteString("}\n\n")
			for _, m := range t.Methods {
				own := ""
				if f.OwnImport {
					own = "\tutil.Do()\n"
				}
				sb.WriteString("func (r *" + t.Name + ") " + m + "(n int) {\n" + own + "\tfmt.Println(n)\n}\n\n")
			}
		case "interface":
			sb.WriteString("type " + t.Name + " interface {\n")
			for _, m := range t.Methods {
				sb.WriteString("\t" + m + "()\n")
			}
			sb.WriteString("}\n\n")
		}
	}
	for _, fn := range f.Free {
		sb.WriteString("func " + fn + "() {\n\tfmt.Println(\"free\")\n}\n\n")
	}
	return sb.String()
}

func (t c20dType) sig() string {
	return t.Name + "{" + strings.Join(t.Fields, ",") + "}[" + strings.Join(t.Methods, ",") + "]"
}

func c20DirGen(c *engine.C) engine.Case {
	layout := engine.PickTag(c, "layout", "one-directory", "two-directories-with-the-same-package-name", "two-directories-different-packages", "nested-directories-same-package-name")
	a := c20dFile{Dir: "golang/app", Name: "a.go", Pkg: "app", Types: []c20dType{{Name: "Config", Kind: "struct", Fields: []string{"Path"}, Methods: []string{"Load"}}}}
	b := c20dFile{Dir: "golang/app", Name: "b.go", Pkg: "app"}
	switch layout {
	case "two-directories-with-the-same-package-name":
		b.Dir = "python/app"
	case "two-directories-different-packages":
		b.Dir, b.Pkg = "python/tool", "tool"
	case "nested-directories-same-package-name":
		b.Dir = "golang/app/internal/app"
	}
	sameGoPackage := layout == "one-directory"
	if c.Bool("a-declares-an-interface") {
		a.Types = append(a.Types, c20dType{Name: "Reader", Kind: "interface", Methods: []string{"Get", "Drop"}})
	}
	if c.Bool("a-declares-a-free-function") {
		a.Free = []string{"Free"}
	}
	if c.Bool("a-declares-a-free-function-named-with-a-non-ascii-capital") {
		a.Free = append(a.Free, "Übersicht")
	}
	switch engine.Pick(c, "b-struct", "like-named-struct", "other-struct", "no-struct", "like-named-struct-without-methods") {
	case "like-named-struct":
		if !sameGoPackage {
			b.Types = append(b.Types, c20dType{Name: "Config", Kind: "struct", Fields: []string{"Lang", "Force"}, Methods: []string{"Save"}})
		} else {
			b.Types = append(b.Types, c20dType{Name: "Config2", Kind: "struct", Fields: []string{"Lang", "Force"}, Methods: []string{"Save"}})
		}
	case "like-named-struct-without-methods":
		if !sameGoPackage {
			b.Types = append(b.Types, c20dType{Name: "Config", Kind: "struct", Fields: []string{"Lang"}})
		} else {
			b.Types = append(b.Types, c20dType{Name: "Config3", Kind: "struct", Fields: []string{"Lang"}})
		}
	case "other-struct":
		b.Types = append(b.Types, c20dType{Name: "Other", Kind: "struct", Fields: []string{"Lang"}, Methods: []string{"Save", "Load"}})
	}
	switch engine.Pick(c, "b-interface", "no-interface", "like-named-interface", "other-interface") {
	case "like-named-interface":
		if !sameGoPackage {
			b.Types = append(b.Types, c20dType{Name: "Reader", Kind: "interface", Methods: []string{"Read"}})
		} else {
			b.Types = append(b.Types, c20dType{Name: "Reader2", Kind: "interface", Methods: []string{"Read"}})
		}
	case "other-interface":
		b.Types = append(b.Types, c20dType{Name: "Writer", Kind: "interface", Methods: []string{"Write", "Flush"}})
	}
	if c.Bool("b-declares-a-free-function") {
		b.Free = []string{"Helper"}
	}
	files := []c20dFile{a, b}
	if c.Bool("third-file") {
		files = append(files, c20dFile{Dir: "zeta/app", Name: "c.go", Pkg: "app", Types: []c20dType{{Name: "Config", Kind: "struct", Fields: []string{"Zone"}, Methods: []string{"Zap"}}, {Name: "Reader", Kind: "interface", Methods: []string{"Scan"}}}})
	}
	if c.Bool("b-before-a") {
		files[0].Name, files[1].Name = "z.go", "b.go"
	}
	driver := c.Bool("through-the-golang-analysis-driver")
	if driver {
		c.Tag("cli")
	}
	// the module file of the analysed tree, and a file that imports a package of that very module
	goMod := map[string]string{"none": "", "several-lines": "module example.com/m\n\ngo 1.13\n", "one-line": "module example.com/m\n", "one-line-without-newline": "module example.com/m",
		"several-lines-without-final-newline": "module example.com/m\n\ngo 1.13", "crlf": "module example.com/m\r\n\r\ngo 1.13\r\n", "tab-separated": "module\texample.com/m\n"}[engine.PickTag(c, "go.mod", "none", "several-lines", "one-line", "one-line-without-newline", "several-lines-without-final-newline", "crlf", "tab-separated")]
	if goMod != "" {
		files[0].OwnImport = true
		files = append(files, c20dFile{Dir: "util", Name: "util.go", Pkg: "util", Free: []string{"Do"}})
	}
	return func() engine.Result {
		var specs []FileSpec
		var desc []string
		for _, f := range files {
			specs = append(specs, FileSpec{Path: filepath.Join(f.Dir, f.Name), Content: f.source()})
		}
		if goMod != "" {
			specs = append(specs, FileSpec{Path: "go.mod", Content: goMod})
		}
		res := engine.Result{InputKey: filesKey(specs) + fmt.Sprint(driver), Input: map[string]interface{}{"files": filesInput(specs), "through_driver": driver}, Nontrivial: true}
		root, cleanup := materialise(specs)
		defer cleanup()
		// CommonAnalysis writes coca_reporter/members.json into the working directory
		var ds []core_domain.CodeDataStruct
		if driver {
			// analysis/golang: `analysis -p .` writes coca_reporter/godeps.json
			r := runCLIOf("golang", root, "analysis", "-p", ".")
			if r.Exit != 0 {
				res.Violations = append(res.Violations, engine.V("go-directory", "driver-exit-status", "golang analysis -p . exited %d: %s", r.Exit, trimTo(r.Stderr+r.Stdout, 500)))
				return res
			}
			if err := readReport(root, "godeps.json", &ds); err != nil {
				res.Violations = append(res.Violations, engine.V("go-directory", "driver-report", "godeps.json: %v", err))
				return res
			}
		} else {
			wd, _ := os.Getwd()
			if err := os.Chdir(root); err != nil {
				panic(err)
			}
			ds = analysis.CommonAnalysis(io.Discard, root, new(goapp.GoIdentApp), cocafile.GoFileFilter, true)
			os.Chdir(wd)
		}
		typeNames := map[string]bool{}
		var want []string
		freeWant := map[string]string{}
		for _, f := range files {
			for _, t := range f.Types {
				typeNames[t.Name] = true
				want = append(want, t.sig())
			}
			for _, fn := range f.Free {
				freeWant[fn] = f.Pkg
			}
		}
		var got []string
		freeGot := map[string][]string{}
		for _, d := range ds {
			var fs, ms []string
			isIface := false
			for _, p := range d.InOutProperties {
				fs = append(fs, p.ParamName)
			}
			for _, fn := range d.Functions {
				ms = append(ms, fn.Name)
			}
			desc = append(desc, fmt.Sprintf("%s/%s{%s}[%s]", d.Package, d.NodeName, strings.Join(fs, ","), strings.Join(ms, ",")))
			if typeNames[d.NodeName] {
				// an interface lists its method set where a struct lists its fields
				for _, f := range files {
					for _, t := range f.Types {
						if t.Name == d.NodeName && t.Kind == "interface" && strings.Join(t.Methods, ",") == strings.Join(fs, ",") {
							isIface = true
						}
					}
				}
				if isIface {
					got = append(got, d.NodeName+"{}["+strings.Join(fs, ",")+"]")
				} else {
					got = append(got, d.NodeName+"{"+strings.Join(fs, ",")+"}["+strings.Join(ms, ",")+"]")
				}
			} else if _, ok := freeWant[d.NodeName]; ok {
				freeGot[d.NodeName] = append(freeGot[d.NodeName], d.Package)
			}
		}
		if goMod != "" {
			// calls of the module's own package are listed under that package's own name
			found := 0
			for _, d := range ds {
				if d.NodeName != "Config" {
					continue
				}
				for _, fn := range d.Functions {
					if fn.Name != "Load" {
						continue
					}
					for _, cl := range fn.FunctionCalls {
						if cl.NodeName == "util" && cl.FunctionName == "Do" {
							found++
							if cl.Package != "util" {
								res.Violations = append(res.Violations, engine.V("go-directory", "own-module-call-package", "go.mod %q: the call util.Do() in %s.%s is listed under package %q, want util", goMod, d.NodeName, fn.Name, cl.Package))
							}
						}
					}
				}
			}
			if found != 1 {
				res.Violations = append(res.Violations, engine.V("go-directory", "own-module-call-count", "go.mod %q: %d calls util.Do() listed in Config.Load, 1 written (all entries: %v)", goMod, found, desc))
			}
		}
		sort.Strings(want)
		sort.Strings(got)
		res.Outcome = strings.Join(desc, " ")
		if strings.Join(want, " ") != strings.Join(got, " ") {
			res.Violations = append(res.Violations, engine.V("go-directory", "type-entries", "directory analysis lists the types %v, the files declare %v (all entries: %v)", got, want, desc))
		}
		for fn, pkg := range freeWant {
			if len(freeGot[fn]) != 1 || freeGot[fn][0] != pkg {
				res.Violations = append(res.Violations, engine.V("go-directory", "function-entries", "exported function %s of package %s is listed under %v", fn, pkg, freeGot[fn]))
			}
		}
		return res
	}
}

// ---- Python trees through CommonAnalysis and through the python analysis driver (pydeps.json) ----------------

type c20pFile struct {
	Path    string
	Classes []c20dType // Kind unused; Methods = method names
	Free    []string   // module-level functions with a capitalised name (listed as nodes of their own)
	Lower   []string   // other module-level functions
}

func (f c20pFile) source() string {
	var sb strings.Builder
	sb.WriteString("import os\n\n")
	for _, cl := range f.Classes {
		sb.WriteString("class " + cl.Name + ":\n")
		if len(cl.Methods) == 0 {
			sb.WriteString("    pass\n")
		}
		for _, m := range cl.Methods {
			sb.WriteString("    def " + m + "(self):\n        return 1\n\n")
		}
		sb.WriteString("\n")
	}
	for _, fn := range append(append([]string{}, f.Free...), f.Lower...) {
		sb.WriteString("def " + fn + "():\n    return 2\n\n")
	}
	return sb.String()
}

func c20PyDirGen(c *engine.C) engine.Case {
	a := c20pFile{Path: "app/a.py", Classes: []c20dType{{Name: "Foo", Methods: []string{"run", "stop"}}}}
	b := c20pFile{Path: "app/b.py"}
	switch engine.PickTag(c, "layout", "one-directory", "two-directories", "nested") {
	case "two-directories":
		b.Path = "lib/b.py"
	case "nested":
		b.Path = "app/inner/b.py"
	}
	if c.Bool("a-declares-a-capitalised-function") {
		a.Free = []string{"Build"}
	}
	if c.Bool("a-declares-a-lower-case-function") {
		a.Lower = []string{"helper"}
	}
	switch engine.Pick(c, "b-class", "other-class", "like-named-class", "no-class", "two-classes") {
	case "other-class":
		b.Classes = []c20dType{{Name: "Bar", Methods: []string{"go"}}}
	case "like-named-class":
		b.Classes = []c20dType{{Name: "Foo", Methods: []string{"other"}}}
	case "two-classes":
		b.Classes = []c20dType{{Name: "Bar", Methods: []string{"go"}}, {Name: "Baz"}}
	}
	if c.Bool("b-declares-a-capitalised-function") {
		b.Free = []string{"Make"}
	}
	files := []c20pFile{a, b}
	if c.Bool("a-non-python-file-lies-between") {
		files = append(files, c20pFile{Path: "app/aa.go.txt"})
	}
	driver := c.Bool("through-the-python-analysis-driver")
	if driver {
		c.Tag("cli")
	}
	return func() engine.Result {
		var specs []FileSpec
		for _, f := range files {
			content := f.source()
			if !strings.HasSuffix(f.Path, ".py") {
				content = "not a python module\n"
			}
			specs = append(specs, FileSpec{Path: f.Path, Content: content})
		}
		res := engine.Result{InputKey: filesKey(specs) + fmt.Sprint(driver), Input: map[string]interface{}{"files": filesInput(specs), "through_driver": driver}, Nontrivial: true}
		root, cleanup := materialise(specs)
		defer cleanup()
		var ds []core_domain.CodeDataStruct
		if driver {
			r := runCLIOf("python", root, "analysis", "-p", ".")
			if r.Exit != 0 {
				res.Violations = append(res.Violations, engine.V("python-directory", "driver-exit-status", "python analysis -p . exited %d: %s", r.Exit, trimTo(r.Stderr+r.Stdout, 500)))
				return res
			}
			if err := readReport(root, "pydeps.json", &ds); err != nil {
				res.Violations = append(res.Violations, engine.V("python-directory", "driver-report", "pydeps.json: %v", err))
				return res
			}
		} else {
			wd, _ := os.Getwd()
			if err := os.Chdir(root); err != nil {
				panic(err)
			}
			ds = analysis.CommonAnalysis(io.Discard, root, new(pyapp.PythonIdentApp), cocafile.PythonFileFilter, true)
			os.Chdir(wd)
		}
		classNames := map[string]bool{}
		var want []string
		freeWant := map[string]bool{}
		for _, f := range files {
			for _, cl := range f.Classes {
				classNames[cl.Name] = true
				want = append(want, cl.Name+"["+strings.Join(cl.Methods, ",")+"]")
			}
			for _, fn := range f.Free {
				freeWant[fn] = true
			}
		}
		var got, desc []string
		freeGot := map[string]int{}
		for _, d := range ds {
			var ms []string
			for _, fn := range d.Functions {
				ms = append(ms, fn.Name)
			}
			desc = append(desc, d.NodeName+"["+strings.Join(ms, ",")+"]")
			if classNames[d.NodeName] {
				got = append(got, d.NodeName+"["+strings.Join(ms, ",")+"]")
			} else if freeWant[d.NodeName] {
				freeGot[d.NodeName]++
			}
		}
		sort.Strings(want)
		sort.Strings(got)
		res.Outcome = strings.Join(desc, " ")
		if strings.Join(want, " ") != strings.Join(got, " ") {
			res.Violations = append(res.Violations, engine.V("python-directory", "class-entries", "directory analysis lists the classes %v, the modules declare %v (all entries: %v)", got, want, desc))
		}
		for fn := range freeWant {
			if freeGot[fn] != 1 {
				res.Violations = append(res.Violations, engine.V("python-directory", "function-entries", "capitalised module-level function %s is listed %d times (all entries: %v)", fn, freeGot[fn], desc))
			}
		}
		return res
	}
}
