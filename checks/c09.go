package checks

import (
	"encoding/json"
	"fmt"
	"os"
	"path/filepath"
	"runtime/debug"
	"sort"
	"strings"

	"github.com/antlr/antlr4/runtime/Go/antlr/v4"
	parser "github.com/modernizing/coca/languages/java"
	"github.com/modernizing/coca/pkg/application/api"
	"github.com/modernizing/coca/pkg/application/bs"
	"github.com/modernizing/coca/pkg/application/refactor/unused"
	"github.com/modernizing/coca/pkg/application/todo"
	"github.com/modernizing/coca/pkg/domain/core_domain"
	"verif/engine"
)

// ---- the wide generator: menus follow the alternatives of JavaParser.g4 ------------------------------

var c09TypeAnns = []string{"", "@Deprecated", "@SuppressWarnings(\"unchecked\")", "@SuppressWarnings({\"a\", \"b\"})", "@Table(name = \"t\", indexes = @Index(columnList = \"c\"))",
	"@javax.annotation.Generated(value = \"x\")", "@Retry(MAX)", "@Retry(Config.MAX)", "@Anno(1 + 2)", "@Anno(value = {})", "@Anno(Foo.class)", "@Anno(@Inner)", "@RequestMapping(BASE)", "@RequestMapping(value = BASE + \"/x\")", "@RequestMapping(value = {\"/a\", \"/b\"})", "@RestController @RequestMapping", "@RestController @RequestMapping(A)", "@Controller @RequestMapping(value = B)", "@RestController @RequestMapping(\"\")"}
var c09TypeParams = []string{"", "<T>", "<T extends Comparable<T>>", "<K, V extends java.util.List<? super K>>", "<T extends Number & Comparable<T>>"}
var c09Supers = []string{"", " extends Base", " extends Base<String>", " implements Runnable", " extends a.b.Base implements java.io.Serializable, Comparable<Unit>", " implements Outer.Inner<int[]>", " extends a.b.Base<String>", " extends Base<String>.Inner"}

var c09Members = []string{
	"int plain;",
	"private static final long serialVersionUID = 1L;",
	"int a, b = 2, c[];",
	"int[] arr = {1, 2, 3};",
	"int[][] grid = new int[2][3];",
	"String[] names = new String[] {\"a\", \"b\"};",
	"java.util.List<String> qualified = new java.util.ArrayList<>();",
	"Map<String, List<? extends Number>> nested;",
	"Runnable r = () -> {};",
	"java.util.function.Function<String, Integer> f = s -> s.length();",
	"java.util.function.BiFunction<Integer, Integer, Integer> add = (Integer x, Integer y) -> x + y;",
	"java.util.function.Supplier<int[]> mk = int[]::new;",
	"java.util.function.Supplier<java.util.List<String>> mk2 = java.util.ArrayList::new;",
	"Object anon = new Object() {\n    int inner;\n    @Override\n    public String toString() {\n        return \"x\";\n    }\n};",
	"Comparator<String> cmp = new Comparator<String>() {\n    public int compare(String a, String b) {\n        return a.compareTo(b);\n    }\n};",
	"@Deprecated int annotated;",
	"@Inject @Named(\"x\") private Service svc;",
	"static {\n    int s = 1;\n}",
	"{\n    int i = 2;\n}",
	"Unit() {\n}",
	"public Unit(int a, String... rest) {\n    this();\n}",
	"Unit(Unit other) {\n    super();\n}",
	"<T> Unit(T generic) {\n}",
	"void empty() {\n}",
	"abstract void abs();",
	"native int nat();",
	"public static void main(String[] args) throws Exception, java.io.IOException {\n}",
	"<T extends Comparable<T>> T max(T a, T b) {\n    return a;\n}",
	"void recv(Unit this, int x) {\n}",
	"void varargs(final int... xs) {\n}",
	"int[] arrayRet()[] {\n    return null;\n}",
	"void annotatedParams(@NotNull final String a, @Size(min = 1) int b) {\n}",
	"@Override\npublic boolean equals(Object o) {\n    return o instanceof Unit u && u != null;\n}",
	"@GetMapping\npublic String bare() {\n    return \"\";\n}",
	"@RequestMapping(method = RequestMethod.GET)\npublic String noValue(@RequestBody java.util.Map<String, Object> body) {\n    return \"\";\n}",
	"@PostMapping(PATH)\npublic String constantPath() {\n    return \"\";\n}",
	"@RequestMapping(value = P, method = RequestMethod.GET)\npublic String shortConstant() {\n    return \"\";\n}",
	"@RestController\nstatic class NestedCtl {\n    @GetMapping(\"/n\")\n    public String n(@RequestBody Unit u) {\n        return \"\";\n    }\n}",
	"static class Nested {\n    int n;\n    void m() {\n    }\n}",
	"class Inner<T> {\n    class Deeper {\n    }\n}",
	"enum Color {\n    RED, GREEN;\n}",
	"enum Op {\n    ADD(\"+\") {\n        int apply(int a, int b) {\n            return a + b;\n        }\n    };\n    private final String s;\n    Op(String s) {\n        this.s = s;\n    }\n    abstract int apply(int a, int b);\n}",
	"interface Callback {\n    void done(int code);\n    default void fail() {\n    }\n    static Callback noop() {\n        return c -> {};\n    }\n}",
	"@interface Marker {\n    String value() default \"\";\n    int[] nums() default {1, 2};\n}",
	"record Point(int x, int y) {\n    static int origin = 0;\n    int sum() {\n        return x + y;\n    }\n}",
	";",
	"java.lang.@Deprecated int altAnnotated1;",
	// the same form in front of a method's result type, a parameter type and a local's type
	"public java.lang.@Deprecated String altAnnotatedResult() {\n    return null;\n}",
	"void altAnnotatedParameter(java.lang.@Deprecated String p) {\n    java.lang.@Deprecated String l = null;\n}",
	// a controller whose mapped handlers declare a receiver parameter (alone, and in front of a request body)
	"@RestController\nstatic class ReceiverCtl {\n    @GetMapping(\"/only\")\n    public String only(ReceiverCtl this) {\n        return \"\";\n    }\n    @PostMapping(\"/body\")\n    public String body(ReceiverCtl this, @RequestBody Unit u) {\n        return \"\";\n    }\n}",
	"@GetMapping(\"/mapped\")\npublic String mappedWithReceiver(Unit this, int x) {\n    return \"\";\n}",
	"public java.lang.@Deprecated String altAnnotated2;",
	"java.util.@Deprecated List<java.lang.@Deprecated String> altAnnotated3;",
	"void lambdaVar() {\n    java.util.function.BiFunction<Integer, Integer, Integer> f2 = (var p, var q) -> p + q;\n}",
	"Object pattern(Object o) {\n    return switch (o) {\n        case String s && s.length() > 1 -> s;\n        default -> o;\n    };\n}",
	"int ünïcode = 1;",
	"String 名前 = \"値\";",
	"// TODO member level",
	"//",
	"/**/",
	"/* */",
	"/** doc TODO */\nint documented;",
	"char c = '\\u0041';",
	"String text = \"\"\"\n    block\n    \"\"\";",
	"double d = 1e-3, h = 0x1.8p1, u = 1_000.5;",
	"long big = 0xFFFF_FFFFL, bin = 0b1010, oct = 017;",
}

var c09Stmts = []string{
	"int local = 1;",
	"final var inferred = new java.util.ArrayList<String>();",
	"label: for (int i = 0; i < 3; i++) {\n    continue label;\n}",
	"for (String s : names) {\n    break;\n}",
	"for (;;) {\n    break;\n}",
	"while (flag) {\n    flag = false;\n}",
	"do {\n    n++;\n} while (n < 3);",
	"if (flag) n = 1; else if (n > 2) n = 2; else n = 3;",
	"switch (n) {\n    case 1:\n    case 2:\n        n++;\n        break;\n    default:\n}",
	"switch (n) {\n    case 1 -> n++;\n    case 2, 3 -> {\n        n--;\n    }\n    default -> n = 0;\n}",
	"int y = switch (n) {\n    case 1 -> 10;\n    default -> {\n        yield 20;\n    }\n};",
	"try {\n    n++;\n} catch (IllegalStateException | IllegalArgumentException e) {\n    n--;\n} finally {\n    n = 0;\n}",
	"try (java.io.InputStream in = open(); java.io.OutputStream out = sink()) {\n    in.read();\n}",
	"try (res) {\n    n++;\n}",
	"synchronized (this) {\n    n++;\n}",
	"assert n > 0 : \"positive\";",
	"throw new IllegalStateException(\"x\");",
	"return;",
	"class Local {\n    int v;\n}",
	"Runnable r2 = () -> System.out.println(\"x\");",
	"names.forEach(System.out::println);",
	"names.stream().map(String::length).filter(l -> l > 1).forEach(this::consume);",
	"new Thread(() -> {\n    n++;\n}).start();",
	"new Unit().new Inner<String>();",
	"outer.new Inner<String>();",
	"Object o1 = (Object) names;",
	"Object o2 = (Runnable & java.io.Serializable) () -> {};",
	"Object o3 = flag ? null : this;",
	"Object o4 = names instanceof java.util.List<?> l2 ? l2 : null;",
	"int[] o5 = new int[] {1, 2}, o6 = {3};",
	"Object o7 = new int[n][];",
	"Object o8 = Unit.<String>generic(\"x\");",
	"Object o9 = this.<Integer>generic(1);",
	"Object o10 = super.toString();",
	"Object o11 = Unit.this.n;",
	"Object o12 = int.class;",
	"Object o13 = String[].class;",
	"n += n++ + ++n - -n >>> 2;",
	"boolean bb = !flag && (n & 1) == 0 || n <= ~n;",
	"@SuppressWarnings(\"x\") int annotatedLocal = 0;",
	"String t = \"é\" + 'ü' + \"\\u00e9\";",
	// identifiers made of `$` and `_` only, used as bare expressions
	"int $ = 1;\nconsume($);\n$++;",
	"int __ = 2, $_ = 3;\n__ = __ + $_;\nconsume(__);",
	"// TODO statement level",
	"/* TODO(bob): block */",
	";",
	"var anon2 = new Object() {\n    void hi() {\n    }\n};\nanon2.hi();",
	"Foo.bar().baz().qux(1, \"a\", x -> x);",
	"java.util.Optional.ofNullable(null).map(Object::toString).orElse(null);",
	"this.svc.call();",
	"super.equals(null);",
	"new Foo<>() {\n};",
	"Runnable rr = new Runnable() {\n    public void run() {\n        Object made = new Object();\n    }\n};",
	"java.util.concurrent.Callable<Object> cc = new java.util.concurrent.Callable<>() {\n    public Object call() {\n        return new Object() {\n            int deep = new int[1].length;\n        };\n    }\n};",
	"consume(new Object() {\n    void a() {\n        consume(new Object());\n    }\n    void b() {\n    }\n});",
	"new java.util.HashMap<String, java.util.List<Integer>>() {{\n    put(\"a\", null);\n}};",
	// method references whose qualifier is a type that is not an expression (array, parameterised), naming a method or new
	"java.util.function.Function<int[], int[]> cloner = int[]::clone;",
	"java.util.function.ToIntFunction<java.util.ArrayList<String>> sizer = java.util.ArrayList<String>::size;",
	"java.util.function.IntFunction<int[]> maker = int[]::new;\njava.util.function.Supplier<java.util.ArrayList<String>> fresh = java.util.ArrayList<String>::new;",
	// long non-ASCII text in front of a dot: in a literal argument, and as an identifier heading a call chain
	"consume(\"Пользователь с таким именем не найден. Повторите попытку\");",
	"Object построительОтчётаПоВсемЗаказамЗаГод = null;\nпостроительОтчётаПоВсемЗаказамЗаГод.toString().trim();",
	"System.out.println(\"日本語のとても長いメッセージをここに書いておきます。次の文.\" + n);",
}

var c09Kinds = []string{"class", "abstract class", "final class", "enum", "interface", "@interface", "record", "empty-file", "package-info", "module", "two-types", "interface-then-class", "only-comments"}

func c09Indent(s, ind string) string {
	return ind + strings.ReplaceAll(s, "\n", "\n"+ind)
}

func c09Gen(c *engine.C) engine.Case {
	kind := c09Kinds[c.Choose(len(c09Kinds), "unit-kind")]
	pkg := engine.PickTag(c, "package", "package p;", "package a.b.c;", "", "@Deprecated\npackage annotated.pkg;")
	imports := engine.PickTag(c, "imports", "import java.util.*;", "", "import java.util.List;\nimport static java.lang.Math.*;\nimport static java.util.Objects.requireNonNull;", "import java.util.Map.Entry;;")
	typeAnn := c09TypeAnns[c.Choose(len(c09TypeAnns), "type-annotation")]
	typeParams := c09TypeParams[c.Choose(len(c09TypeParams), "type-params")]
	super_ := c09Supers[c.Choose(len(c09Supers), "supertypes")]
	var members []string
	nm := []int{1, 0, 2, 3}[c.Choose(4, "members")]
	for i := 0; i < nm; i++ {
		members = append(members, c09Members[(c.Choose(len(c09Members), fmt.Sprintf("member%d", i))+i*7)%len(c09Members)])
	}
	var stmts []string
	ns := []int{1, 0, 2, 3}[c.Choose(4, "statements")]
	for i := 0; i < ns; i++ {
		stmts = append(stmts, c09Stmts[(c.Choose(len(c09Stmts), fmt.Sprintf("stmt%d", i))+i*5)%len(c09Stmts)])
	}
	header := engine.PickTag(c, "header-comment", "", "// TODO: file header", "/* é */", "/**\n * TODO (amy) doc header\n */", "#", "//",
		// messages that are long in bytes but not in characters
		"// TODO: 这个方法需要重新设计因为它现在做了太多的事情而且很难测试请在下个版本之前完成", "// FIXME(zoë): vérifier que la réservation reste cohérente après l'échec, ça dépend",
		// block TODO comments whose inner lines are empty, hold only white space, or end in a carriage return
		"/* TODO(bob): first line\n   \n\t\n * second line */", "/*\n * TODO: gutter\n *\n\n */", "/* TODO(cr): windows line\r\n\r\n * next\r\n */")
	if header == "#" {
		header = "" // '#' is not Java; the todo scan's hash comments are C17's subject
	}
	var sb strings.Builder
	w := func(s string) {
		if s != "" {
			sb.WriteString(s + "\n")
		}
	}
	w(header)
	host := func() string {
		var b strings.Builder
		b.WriteString("    int n;\n    boolean flag;\n    java.util.List<String> names;\n    Unit outer;\n    Object res;\n")
		for _, m := range members {
			b.WriteString(c09Indent(m, "    ") + "\n")
		}
		b.WriteString("    void host() throws Exception {\n")
		for _, s := range stmts {
			if s == "return;" || strings.HasPrefix(s, "throw ") {
				b.WriteString("        if (flag) {\n" + c09Indent(s, "            ") + "\n        }\n")
			} else {
				b.WriteString(c09Indent(s, "        ") + "\n")
			}
		}
		b.WriteString("    }\n")
		b.WriteString("    <G> G generic(G g) {\n        return g;\n    }\n    void consume(Object o) {\n    }\n    java.io.InputStream open() {\n        return null;\n    }\n    java.io.OutputStream sink() {\n        return null;\n    }\n")
		return b.String()
	}
	fileName := "Unit.java"
	switch kind {
	case "class", "abstract class", "final class":
		w(pkg)
		w(imports)
		w(typeAnn)
		w("public " + kind + " Unit" + typeParams + super_ + " {")
		sb.WriteString(host())
		w("}")
	case "enum":
		w(pkg)
		w(imports)
		w(typeAnn)
		w("public enum Unit implements Runnable {")
		w("    @Deprecated FIRST(1), SECOND(2) {\n        @Override\n        public void run() {\n        }\n    }, THIRD;")
		w("    Unit() {\n        this(0);\n    }\n    Unit(int v) {\n    }\n    public void run() {\n    }")
		for _, m := range members {
			if !strings.Contains(m, "Unit(") && !strings.HasPrefix(m, "abstract") && !strings.Contains(m, "Unit this") {
				w(c09Indent(m, "    "))
			}
		}
		w("}")
	case "interface":
		w(pkg)
		w(imports)
		w(typeAnn)
		w("public interface Unit" + typeParams + " extends Runnable, Comparable<Unit> {")
		w("    int CONST = 1, OTHER = 2;\n    void plain();\n    <T> T generic(T t);\n    default void dflt() {\n        helper();\n    }\n    private void helper() {\n    }\n    static Unit of() {\n        return null;\n    }\n    @Deprecated String annotated(@NotNull String a, int... rest) throws Exception;\n    class InIface {\n    }\n    enum E {\n        A\n    }")
		w("}")
	case "@interface":
		w(pkg)
		w(imports)
		w("@java.lang.annotation.Retention(java.lang.annotation.RetentionPolicy.RUNTIME)\n@java.lang.annotation.Target({java.lang.annotation.ElementType.TYPE, java.lang.annotation.ElementType.METHOD})")
		w("public @interface Unit {")
		w("    String value() default \"\";\n    int[] numbers() default {};\n    Class<?> type() default Object.class;\n    Nested nested() default @Nested;\n    int CONSTANT = 3;\n    @interface Nested {\n    }\n    enum Mode {\n        A, B\n    }")
		w("}")
	case "record":
		w(pkg)
		w(imports)
		w(typeAnn)
		w("public record Unit" + typeParams + "(int x, @Deprecated String name, java.util.List<String> rest) implements Runnable {")
		w("    static int count;\n    Unit(int x) {\n        this(x, null);\n    }\n    public void run() {\n    }\n    record Nested(Unit u) {\n    }")
		w("}")
	case "empty-file":
		// nothing but the header
	case "only-comments":
		w("// only comments\n/* and a block */\n/** and doc */")
	case "package-info":
		fileName = "package-info.java"
		w("/** package doc TODO */\n@Deprecated\npackage p.info;\n\nimport java.util.*;")
	case "module":
		fileName = "module-info.java"
		w("module my.mod {\n    requires java.base;\n    requires transitive java.sql;\n    exports p;\n    exports p.internal to other.mod;\n    opens p.open;\n    uses p.Service;\n    provides p.Service with p.Impl;\n}")
	case "two-types":
		w(pkg)
		w(imports)
		w(typeAnn)
		w("public class Unit {")
		sb.WriteString(host())
		w("}")
		w("class Second" + typeParams + super_ + " {\n    void m2() {\n    }\n}")
		w("enum Third {\n    X\n}")
	case "interface-then-class":
		w(pkg)
		w(imports)
		w("interface First {\n    void f();\n}")
		w(typeAnn)
		w("public class Unit implements First {")
		sb.WriteString(host())
		w("    public void f() {\n    }\n}")
	}
	src := sb.String()
	if kind != "class" {
		c.Tag("unit=" + kind)
	}
	return func() engine.Result { return c09Check(fileName, src) }
}

// ---- running every pass, each behind its own recover ------------------------------------------------------

const c09Plain = "package plain;\n\nimport java.util.List;\n\npublic class Plain {\n    private List<String> items;\n\n    public int size() {\n        return items.size();\n    }\n}\n"

func c09Guard(res *engine.Result, pass string, fn func() interface{}) {
	defer func() {
		if r := recover(); r != nil {
			lines := strings.Split(string(debug.Stack()), "\n")
			frame := engine.PanicFrame(lines)
			msg := fmt.Sprint(r)
			res.Violations = append(res.Violations, engine.Violation{Clause: "panic-" + pass, Kind: frame + ":" + engine.PanicClass(msg),
				Detail: fmt.Sprintf("%s pass panics in %s: %v", pass, frame, r)})
		}
	}()
	v := fn()
	if _, err := json.Marshal(v); err != nil {
		res.Violations = append(res.Violations, engine.V("serialise-"+pass, "json", "%s result cannot be serialised: %v", pass, err))
	}
}

// c09ThroughCLI: the commands themselves, each in a child process, on a project holding the unit and a plain
// file: every command must end with exit status 0.
var c09ThroughCLI = false

func c09GenCLI(c *engine.C) engine.Case {
	cs := c09Gen(c)
	return func() engine.Result {
		c09ThroughCLI = true
		defer func() { c09ThroughCLI = false }()
		return cs()
	}
}

func c09CheckCLI(fileName, src string) engine.Result {
	files := []FileSpec{{Path: filepath.Join("proj", fileName), Content: src}, {Path: "proj/zz/Plain.java", Content: c09Plain}}
	res := engine.Result{InputKey: "cli\n" + fileName + "\n" + src, Input: map[string]string{fileName: src, "through": "coca analysis / bs / api / tbs / todo / refactor"}, Nontrivial: true}
	if n, first := javaSyntaxErrors(src); n > 0 {
		res.Skipped = fmt.Sprintf("not valid for coca's grammar: %d errors (%s)", n, first)
		return res
	}
	root, cleanup := materialise(files)
	defer cleanup()
	os.WriteFile(filepath.Join(root, "move.conf"), nil, 0o644)
	var outcome []string
	for _, args := range [][]string{{"analysis", "-p", "proj"}, {"bs", "-p", "proj"}, {"bs", "-p", "proj", "-s", "type"}, {"api", "-f", "-p", "proj", "-c"}, {"tbs", "-p", "proj"}, {"todo", "-p", "proj"}, {"refactor", "-m", "move.conf", "-p", "proj"}} {
		r := runCLI(root, args...)
		outcome = append(outcome, fmt.Sprintf("%s=%d", args[0], r.Exit))
		if r.Exit != 0 {
			what := "exit-status"
			if r.TimedOut {
				what = "timeout"
			}
			frame := PanicFrameOf(r.Stderr)
			res.Violations = append(res.Violations, engine.V("cli-"+args[0], what+":"+frame, "coca %s ended with status %d on a project with one unusual file: %s", strings.Join(args, " "), r.Exit, trimTo(r.Stderr, 700)))
		}
	}
	res.Outcome = strings.Join(outcome, " ")
	return res
}

// PanicFrameOf extracts the first coca frame of a goroutine dump (for failure classes).
func PanicFrameOf(stderr string) string {
	for _, l := range strings.Split(stderr, "\n") {
		if strings.HasPrefix(l, "github.com/modernizing/coca/") {
			l = strings.TrimPrefix(l, "github.com/modernizing/coca/")
			if i := strings.Index(l, "("); i > 0 {
				l = l[:i]
			}
			return l
		}
	}
	return "no-coca-frame"
}

func c09Check(fileName, src string) engine.Result {
	if c09Record != nil {
		c09Record(src)
		return engine.Result{}
	}
	if c09ThroughCLI {
		return c09CheckCLI(fileName, src)
	}
	files := []FileSpec{{Path: filepath.Join("one", fileName), Content: src}, {Path: filepath.Join("two", fileName), Content: src}, {Path: "two/zz/Plain.java", Content: c09Plain}}
	res := engine.Result{InputKey: fileName + "\n" + src, Input: map[string]string{fileName: src}, Nontrivial: true}
	if n, first := javaSyntaxErrors(src); n > 0 {
		res.Skipped = fmt.Sprintf("not valid for coca's grammar: %d errors (%s)", n, first)
		return res
	}
	root, cleanup := materialise(files)
	defer cleanup()
	one := filepath.Join(root, "one")
	f := filepath.Join(one, fileName)
	var idents []core_domain.CodeDataStruct
	var deps []core_domain.CodeDataStruct
	var outcome []string
	c09Guard(&res, "identifier", func() interface{} { idents = identPass([]string{f}); return idents })
	c09Guard(&res, "full", func() interface{} { deps = fullPass(idents, []string{f}); return deps })
	c09Guard(&res, "bad-smell", func() interface{} {
		app := bs.NewBadSmellApp()
		nodes := app.AnalysisPath(one)
		return app.IdentifyBadSmell(nodes, nil)
	})
	c09Guard(&res, "api", func() interface{} {
		return new(api.JavaApiApp).AnalysisPath(one, deps, core_domain.BuildIdentifierMap(idents), map[string]string{})
	})
	c09Guard(&res, "refactor-scan", func() interface{} { return unused.NewRemoveUnusedImportApp(one).Analysis() })
	c09Guard(&res, "todo", func() interface{} { return todo.NewTodoApp().AnalysisPath(one, []string{".java"}) })
	// one unusual file never aborts the analysis of a whole project
	two := filepath.Join(root, "two")
	c09Guard(&res, "project", func() interface{} {
		all := []string{filepath.Join(two, fileName), filepath.Join(two, "zz", "Plain.java")}
		ids := identPass(all)
		full := fullPass(ids, all)
		found := false
		for _, n := range full {
			if n.NodeName == "Plain" && n.Package == "plain" {
				for _, fn := range n.Functions {
					if fn.Name == "size" {
						found = true
					}
				}
			}
		}
		if !found {
			res.Violations = append(res.Violations, engine.V("project", "plain-file-lost", "the plain file's entry (plain.Plain.size) is missing when analysed together with %s", fileName))
		}
		return full
	})
	outcome = append(outcome, fmt.Sprintf("idents=%d deps=%d", len(idents), len(deps)))
	sort.Slice(res.Violations, func(i, j int) bool { return res.Violations[i].ClassKey() < res.Violations[j].ClassKey() })
	for _, v := range res.Violations {
		outcome = append(outcome, v.ClassKey())
	}
	res.Outcome = strings.Join(outcome, "\n")
	return res
}

// ---- fixtures under semantics-preserving rewrites ---------------------------------------------------------

var c09FixtureList []string

func c09Fixtures() []string {
	if c09FixtureList != nil {
		return c09FixtureList
	}
	repo := os.Getenv("VERIF_REPO")
	if repo == "" {
		repo = "/repo"
	}
	for _, base := range []string{filepath.Join(repo, "_fixtures"), filepath.Join(repo, "pkg")} {
		filepath.Walk(base, func(p string, fi os.FileInfo, err error) error {
			if err == nil && !fi.IsDir() && strings.HasSuffix(p, ".java") && (strings.Contains(p, "_fixtures") || strings.Contains(p, "testdata")) {
				c09FixtureList = append(c09FixtureList, p)
			}
			return nil
		})
	}
	sort.Strings(c09FixtureList)
	return c09FixtureList
}

var c09Rewrites = []string{"identity", "re-indent", "blank-line-after-every-line", "line-comment-at-first-line", "block-comment-at-middle-line", "todo-comment-at-last-line", "crlf-free-trailing-spaces", "tabs-for-spaces"}

func c09Rewrite(src, how string) string {
	lines := strings.Split(src, "\n")
	switch how {
	case "re-indent":
		for i, l := range lines {
			lines[i] = "  " + strings.TrimLeft(l, " \t")
		}
	case "blank-line-after-every-line":
		var r []string
		for _, l := range lines {
			r = append(r, l, "")
		}
		lines = r
	case "line-comment-at-first-line":
		lines = append([]string{"// TODO: inserted"}, lines...)
	case "block-comment-at-middle-line":
		m := len(lines) / 2
		lines = append(lines[:m:m], append([]string{"/* é inserted */"}, lines[m:]...)...)
	case "todo-comment-at-last-line":
		lines = append(lines, "// FIXME(zed) trailing", "//")
	case "crlf-free-trailing-spaces":
		for i, l := range lines {
			lines[i] = l + "  "
		}
	case "tabs-for-spaces":
		for i, l := range lines {
			t := strings.TrimLeft(l, " ")
			lines[i] = strings.Repeat("\t", (len(l)-len(t))/4) + t
		}
	}
	return strings.Join(lines, "\n")
}

func c09FixtureGen(c *engine.C) engine.Case {
	fx := c09Fixtures()
	if len(fx) == 0 {
		return func() engine.Result { return engine.Result{Skipped: "no fixtures found"} }
	}
	p := fx[c.Choose(len(fx), "fixture")]
	how := c09Rewrites[c.Choose(len(c09Rewrites), "rewrite")]
	how2 := "identity"
	if !c.Quick() {
		how2 = c09Rewrites[c.Choose(len(c09Rewrites), "second-rewrite")]
	}
	return func() engine.Result {
		b, err := os.ReadFile(p)
		if err != nil {
			return engine.Result{Skipped: err.Error()}
		}
		src := c09Rewrite(c09Rewrite(string(b), how), how2)
		r := c09Check(filepath.Base(p), src)
		r.Input = map[string]string{"fixture": p, "rewrite": how + "+" + how2}
		return r
	}
}

// rule coverage of the wide generator, measured over the units with at most one deviation
type c09RuleCounter struct {
	*antlr.BaseParseTreeListener
	seen map[int]bool
}

func (l *c09RuleCounter) EnterEveryRule(ctx antlr.ParserRuleContext) { l.seen[ctx.GetRuleIndex()] = true }

func c09RuleCoverage(tier string) map[string]interface{} {
	seen := map[int]bool{}
	units, valid := 0, 0
	// the generator returns a closure: sources are collected through a recording hook
	c09Record = func(src string) {
		units++
		is := antlr.NewInputStream(src)
		lexer := parser.NewJavaLexer(is)
		lexer.RemoveErrorListeners()
		p := parser.NewJavaParser(antlr.NewCommonTokenStream(lexer, 0))
		p.RemoveErrorListeners()
		el := &countingErrorListener{DefaultErrorListener: antlr.NewDefaultErrorListener()}
		p.AddErrorListener(el)
		tree := p.CompilationUnit()
		if el.n > 0 {
			return
		}
		valid++
		antlr.NewParseTreeWalker().Walk(&c09RuleCounter{BaseParseTreeListener: &antlr.BaseParseTreeListener{}, seen: seen}, tree)
	}
	defer func() { c09Record = nil }()
	engine.Walk(tier, 1, func(c *engine.C) interface{} { return c09Gen(c) }, func(c *engine.C, cs interface{}) bool {
		cs.(engine.Case)()
		return true
	})
	names := parser.NewJavaParser(antlr.NewCommonTokenStream(parser.NewJavaLexer(antlr.NewInputStream("")), 0)).RuleNames
	var missing []string
	for i, n := range names {
		if !seen[i] {
			missing = append(missing, n)
		}
	}
	return map[string]interface{}{"grammar_rules_total": len(names), "grammar_rules_covered_by_units_with_at_most_one_deviation": len(seen), "grammar_rules_not_covered": missing,
		"units_measured": units, "units_valid": valid}
}

var c09Record func(src string)

func init() {
	engine.Register(&engine.Spec{
		ID:    "C09",
		Title: "Every pass completes without crashing on any valid Java source",
		Rule: "X1 over a wide generator that follows the alternatives of the shipped JavaParser.g4: 13 unit kinds (class, abstract/final class, enum with constant bodies, interface with default/static/private methods, @interface, record, empty file, comments only, package-info, module, several types, interface then class) x 4 package forms x 4 import forms x 16 type-annotation forms x 5 type-parameter forms x 6 supertype forms x 0..3 members from 57 member forms x 0..3 statements from 52 statement/expression forms x 6 header comments; deviation-bounded; " +
			"plus every .java fixture of the repository under 8 layout/comment rewrites (all single rewrites quick, all pairs thorough). Each unit runs through six passes, each behind its own recover, and through a two-file project. Units are validated against coca's own grammar first. Every case is non-trivial.",
		Assumptions: []string{
			"validity = 0 syntax errors from the Java grammar coca ships; invalid units are skipped and counted",
			"nesting depth is bounded by the menus; sentences are not derived mechanically from the .g4 file (rule coverage is measured and reported)",
		},
		Sections: []engine.Section{
			{Name: "wide-generator", KQuick: 2, KThor: 3, Gen: func(c *engine.C) engine.Case {
				cs := c09Gen(c)
				return cs
			}},
			{Name: "fixtures", KQuick: -1, KThor: -1, Gen: c09FixtureGen},
			{Name: "commands-exit-status", KQuick: 1, KThor: 2, Gen: c09GenCLI},
		},
		Extra: c09RuleCoverage,
	})
}
