package checks

import (
	"os"
	"fmt"
	"path/filepath"
	"sort"
	"strings"

	"github.com/modernizing/coca/pkg/application/todo"
	"verif/engine"
)

type c17Tok struct {
	Text     string
	Kind     string // code | literal | line | block | hash | unterminated
	Expect   string // "" none | "req" | "opt"
	Assignee string
	Message  string
}

func c17Tokens() []c17Tok {
	t := []c17Tok{
		{Text: "x = 1;", Kind: "code"},
		{Text: "// TODO: msg", Kind: "line", Expect: "req", Message: "msg"},
		{Text: "/* TODO: blk */", Kind: "block", Expect: "req", Message: "blk"},
		{Text: "# TODO: hash", Kind: "hash", Expect: "req", Message: "hash"},
		{Text: "\"// TODO in string\"", Kind: "literal"},
		{Text: "// TODO (a,b) x", Kind: "line", Expect: "req", Message: "(a,b) x"},
		{Text: "// TODO (see: #12/a?b=c;d) y", Kind: "line", Expect: "req", Message: "(see: #12/a?b=c;d) y"},
		{Text: "//", Kind: "line"},
		{Text: "#", Kind: "hash"},
		{Text: "/**/", Kind: "block"},
		{Text: "// x", Kind: "line"},
		{Text: "# x", Kind: "hash"},
		{Text: "/* x */", Kind: "block"},
		{Text: "//TODO", Kind: "line", Expect: "req"},
		{Text: "#TODO", Kind: "hash", Expect: "req"},
		{Text: "#FIXME now", Kind: "hash", Expect: "req", Message: "now"},
		{Text: "/*TODO*/", Kind: "block", Expect: "req"},
		{Text: "// TODO", Kind: "line", Expect: "req"},
		{Text: "// todo: lower", Kind: "line", Expect: "req", Message: "lower"},
		{Text: "// FixMe fix it", Kind: "line", Expect: "req", Message: "fix it"},
		{Text: "// TODO(bob): msg2", Kind: "line", Expect: "req", Assignee: "bob", Message: "msg2"},
		{Text: "// TODO (amy) msg3", Kind: "line", Expect: "req", Assignee: "amy", Message: "msg3"},
		{Text: "# fixme(zed) later", Kind: "hash", Expect: "req", Assignee: "zed", Message: "later"},
		{Text: "/* FIXME(al): m1\n * m2 */", Kind: "block", Expect: "req", Assignee: "al", Message: "m1 m2"},
		// a colon directly after the marker AND a parenthesised assignee after that colon
		{Text: "// TODO: (cy) msg4", Kind: "line", Expect: "req", Assignee: "cy", Message: "msg4"},
		{Text: "# FIXME: (di): msg5", Kind: "hash", Expect: "req", Assignee: "di", Message: "msg5"},
		// a comment of one kind whose text begins with the marker of another kind: the text does not start with TODO
		{Text: "//# TODO: not-a-todo", Kind: "line"},
		{Text: "/* # FIXME(al): not-a-todo */", Kind: "block"},
		// a hash comment whose text begins with another marker character: the text does not start with TODO
		{Text: "## TODO twice", Kind: "hash"},
		{Text: "##FIXME twice", Kind: "hash"},
		{Text: "#/ todo slash", Kind: "hash"},
		{Text: "#*FIXME star", Kind: "hash"},
		{Text: "// TODOS plural", Kind: "line", Expect: "opt"},
		{Text: "// see TODO later", Kind: "line"},
		{Text: "// é TODO after non-ascii", Kind: "line"},
		{Text: "/* see FIXME later */", Kind: "block"},
		{Text: "# not a todo", Kind: "hash"},
		{Text: "/*\n * TODO gutter\n */", Kind: "block", Expect: "opt"},
		{Text: "/** TODO doc */", Kind: "block", Expect: "opt"},
		{Text: "\"/* TODO */\"", Kind: "literal"},
		{Text: "\"# TODO\"", Kind: "literal"},
		{Text: "'#'", Kind: "literal"},
		{Text: "'/'", Kind: "literal"},
		{Text: "`// TODO tmpl`", Kind: "literal"},
		{Text: "\"esc \\\" // TODO\"", Kind: "literal"},
		{Text: "/", Kind: "code"},
		{Text: "*", Kind: "code"},
		{Text: "foo(a, b);", Kind: "code"},
		{Text: "a / b", Kind: "code"},
		{Text: "/* TODO never closed", Kind: "unterminated", Expect: "opt"},
	}
	return t
}

type c17Want struct {
	Line               int
	Assignee, Message  string
	Required           bool
	Text               string
	matched            bool
}

func normMsg(s string) string {
	s = strings.ReplaceAll(s, "*/", " ")
	s = strings.ReplaceAll(s, "*", " ")
	return strings.Join(strings.Fields(s), " ")
}

func c17Gen(c *engine.C) engine.Case {
	toks := c17Tokens()
	maxLen := 2
	if !c.Quick() {
		maxLen = 3
	}
	n := 1 + c.Choose(maxLen, "len")
	var sb strings.Builder
	var wants []*c17Want
	line := 1
	prevKind := ""
	var seq []string
	for i := 0; i < n; i++ {
		tk := toks[c.Choose(len(toks), fmt.Sprintf("t%d", i))]
		if i > 0 {
			// a line/hash comment swallows the rest of its line: the next token always starts a new line;
			// an unterminated block comment swallows everything: it is only generated in last position
			sameLine := prevKind != "line" && prevKind != "hash" && c.Bool(fmt.Sprintf("j%d-same-line", i))
			if sameLine {
				sb.WriteString(" ")
			} else {
				sb.WriteString("\n")
				line++
			}
		}
		if tk.Kind == "unterminated" && i != n-1 {
			tk = toks[0]
		}
		if tk.Expect != "" {
			wants = append(wants, &c17Want{Line: line, Assignee: tk.Assignee, Message: tk.Message, Required: tk.Expect == "req", Text: tk.Text})
		}
		sb.WriteString(tk.Text)
		line += strings.Count(tk.Text, "\n")
		prevKind = tk.Kind
		seq = append(seq, tk.Text)
	}
	if !c.Bool("no-final-newline") {
		sb.WriteString("\n")
	}
	extCase := engine.PickTag(c, "extension", "selected", "not-selected", "longer-suffix", "other-filter", "javascript-file", "typescript-file", "python-file")
	name, filters := "a.java", []string{".java"}
	selected := true
	switch extCase {
	case "not-selected":
		name, selected = "a.txt", false
	case "longer-suffix":
		name = "a.gen.java"
	case "other-filter":
		filters, selected = []string{".py", ".go"}, false
	case "javascript-file":
		name, filters = "a.js", []string{".js"}
	case "typescript-file":
		name, filters = "a.ts", []string{".java", ".ts"}
	case "python-file":
		name, filters = "a.py", []string{".py"}
	}
	src := sb.String()
	// the source file is a symbolic link to a file kept elsewhere (under a name no filter selects)
	linked := c.Bool("file-is-a-symlink")
	// a second file with the same base name and the same content in another directory (scanned after the first)
	twin := c.Bool("second-file-with-the-same-base-name-elsewhere")
	return func() engine.Result {
		files := []FileSpec{{Path: filepath.Join("src", name), Content: src}}
		if linked {
			files = []FileSpec{{Path: "store/original.data", Content: src}}
		}
		paths := []string{filepath.Join("src", name)}
		if twin {
			files = append(files, FileSpec{Path: filepath.Join("src", "zz", "lib", name), Content: src})
			paths = append(paths, filepath.Join("src", "zz", "lib", name))
		}
		res := engine.Result{InputKey: name + "|" + strings.Join(filters, ",") + "|" + src + fmt.Sprint(linked, twin), Input: map[string]interface{}{"file": name, "filters": filters, "content": src, "file_is_a_symlink": linked, "same_file_again_in": paths[1:]}}
		root, cleanup := materialise(files)
		defer cleanup()
		if linked {
			os.MkdirAll(filepath.Join(root, "src"), 0o755)
			if err := os.Symlink(filepath.Join("..", "store", "original.data"), filepath.Join(root, "src", name)); err != nil {
				res.Skipped = "symlink: " + err.Error()
				return res
			}
		}
		got := todo.NewTodoApp().AnalysisPath(root, filters)
		var lines []string
		for _, g := range got {
			lines = append(lines, fmt.Sprintf("%s:%d (%s) %q", rel(root, g.Filename), g.Line, g.Assignee, normMsg(g.Message)))
		}
		sort.Strings(lines)
		res.Outcome = strings.Join(lines, "\n")
		known := map[string]bool{}
		for _, p := range paths {
			known[filepath.Join(root, p)] = true
		}
		for _, g := range got {
			if !selected {
				res.Violations = append(res.Violations, engine.V("extension", "unselected-file-scanned", "entry reported for %s which no filter in %v selects", name, filters))
			} else if !known[g.Filename] {
				res.Violations = append(res.Violations, engine.V("entries", "file", "entry names file %q", rel(root, g.Filename)))
			}
		}
		if !selected {
			return res
		}
		// every file is judged on its own: the entries naming it against the comments written in it
		for _, p := range paths {
			full := filepath.Join(root, p)
			ws := make([]*c17Want, len(wants))
			for i, w := range wants {
				cp := *w
				cp.matched = false
				ws[i] = &cp
				if cp.Required {
					res.Nontrivial = true
				}
			}
			for _, g := range got {
				if g.Filename != full {
					continue
				}
				var hit *c17Want
				score := -1
				for _, w := range ws {
					if w.matched || w.Line != g.Line {
						continue
					}
					sc := 0
					if w.Required {
						sc = 1
					}
					if w.Assignee == g.Assignee && w.Message == normMsg(g.Message) {
						sc += 2
					}
					if sc > score {
						hit, score = w, sc
					}
				}
				if hit == nil {
					res.Violations = append(res.Violations, engine.V("entries", "unwarranted", "entry at %s line %d (%q) does not correspond to a TODO/FIXME comment; source:\n%s", p, g.Line, g.Message, src))
					continue
				}
				hit.matched = true
				if hit.Required {
					if g.Assignee != hit.Assignee {
						res.Violations = append(res.Violations, engine.V("entries", "assignee", "comment %q: assignee %q reported, want %q", hit.Text, g.Assignee, hit.Assignee))
					}
					if normMsg(g.Message) != hit.Message {
						res.Violations = append(res.Violations, engine.V("entries", "message", "comment %q: message %q reported, want %q", hit.Text, normMsg(g.Message), hit.Message))
					}
				}
			}
			for _, w := range ws {
				if w.Required && !w.matched {
					res.Violations = append(res.Violations, engine.V("entries", "missing", "comment %q at line %d of %s not reported; reported: %v; source:\n%s", w.Text, w.Line, p, lines, src))
				}
			}
		}
		return res
	}
}

func init() {
	engine.Register(&engine.Spec{
		ID:    "C17",
		Title: "Every TODO/FIXME comment is reported once with its line; nothing else is",
		Rule: "X1 full product: all sequences of 1..2 (quick) / 1..3 (thorough) tokens over a 40-token alphabet (code, string/char/template literals containing comment markers and TODO, line/block/hash comments with empty, one-character, marker-only, colon, assignee, lower/mixed case, late-mention, multi-line, gutter, Javadoc and unterminated shapes) x same-line/new-line joiner x final newline x 7 extension-filter cases (.java, unselected, longer suffix, other filter, .js, .ts, .py) x regular file / symbolic link x alone / a second time under the same base name in another directory. " +
			"Non-trivial = at least one entry is required. Distinct = (file name, filters, content).",
		Assumptions: []string{
			"after a line or hash comment the next token starts a new line (a line comment swallows the rest of its line)",
			"optional (neither required nor forbidden): text such as TODOS, Javadoc opener /**, a '*' gutter before the marker, an unterminated block comment at end of file",
			"string literals are double-quoted, character literals hold one character, template literals use backquotes (the lexer's literal forms)",
			"message compared after whitespace and '*' normalisation",
		},
		Sections: []engine.Section{{Name: "token-sequences", KQuick: -1, KThor: -1, Gen: c17Gen}, {Name: "through-coca-todo", KQuick: 1, KThor: 2, Gen: cliTodoGen}},
	})
}
