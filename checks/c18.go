package checks

import (
	"fmt"
	"sort"
	"strings"
	"unicode"

	languages2 "github.com/modernizing/coca/pkg/application/call/stop_words/languages"
	"github.com/modernizing/coca/pkg/application/concept"
	"github.com/modernizing/coca/pkg/application/count"
	"github.com/modernizing/coca/pkg/application/evaluate"
	"github.com/modernizing/coca/pkg/domain/core_domain"
	"github.com/modernizing/coca/pkg/infrastructure/constants"
	"github.com/modernizing/coca/pkg/infrastructure/string_helper"
	"verif/engine"
	jg "verif/javagen"
)

// ---- (a) reference counts over abstract call models -----------------------------------------------

func c18CountGen(o graphOpts) func(c *engine.C) engine.Case {
	return func(c *engine.C) engine.Case {
		g := buildGraph(c, o)
		return func() engine.Result {
			deps := g.Model.ToDeps()
			res := engine.Result{InputKey: g.Model.String(), Input: strings.Split(strings.TrimSpace(g.Model.String()), "\n")}
			declared := map[string]bool{}
			for _, m := range g.Model.Methods {
				declared[m.Full()] = true
			}
			want := map[string]int{}
			for _, m := range g.Model.Methods {
				for _, cl := range m.Calls {
					if cl.Class != "" && declared[cl.Full()] {
						want[cl.Full()]++
					}
				}
			}
			res.Nontrivial = len(want) > 0
			got := count.BuildCallMap(deps)
			var rows []string
			for k, v := range got {
				rows = append(rows, fmt.Sprintf("%s=%d", k, v))
				if v == 0 {
					res.Violations = append(res.Violations, engine.V("count", "zero-entry", "method %q listed with count 0", k))
				}
				if want[k] != v {
					res.Violations = append(res.Violations, engine.V("count", "wrong-count", "method %q: %d references counted, %d call sites resolve to it", k, v, want[k]))
				}
			}
			for k, v := range want {
				if _, ok := got[k]; !ok {
					res.Violations = append(res.Violations, engine.V("count", "missing", "method %q has %d call sites but is not listed", k, v))
				}
			}
			sort.Strings(rows)
			res.Outcome = strings.Join(rows, " ")
			// listing order: reproducible = equal on two runs and sorted by key
			l1, l2 := string_helper.SortWord(got), string_helper.SortWord(count.BuildCallMap(deps))
			for i := range l1 {
				if i < len(l2) && l1[i] != l2[i] {
					res.Violations = append(res.Violations, engine.V("count", "listing-not-reproducible", "two listings differ at row %d", i))
					break
				}
				if i > 0 && l1[i-1].Key > l1[i].Key {
					res.Violations = append(res.Violations, engine.V("count", "listing-order", "listing not ordered by key at row %d", i))
					break
				}
			}
			return res
		}
	}
}

// ---- (b)-(d) evaluation over generated sources --------------------------------------------------------

var c18Mods = []string{"public", "private", "protected", "static", "final", "abstract", "synchronized"}

type c18Method struct {
	m        *jg.Method
	static   bool
	nullable bool
	optional bool // nullable-ness ambiguous
	nullText bool // a return expression merely contains the text "null"
}

func c18Eval(classes []*jg.Class, metas map[*jg.Class][]c18Method, layout jg.Layout) engine.Result {
	var files []FileSpec
	for _, cls := range classes {
		files = append(files, FileSpec{Path: c18Path(cls), Content: jg.Print(cls, layout)})
	}
	res := engine.Result{InputKey: filesKey(files), Input: filesInput(files), Nontrivial: true}
	if why := validateJava(files); why != "" {
		res.Skipped = why
		return res
	}
	root, cleanup := materialise(files)
	defer cleanup()
	all := absFiles(root, files, nil)
	idents := identPass(all)
	full := fullPass(idents, all)
	model := evaluate.NewEvaluateAnalyser().Analysis(full, idents)
	wantClasses, wantMethods, wantStatic, wantUtil := 0, 0, 0, 0
	wantNull, optNull, textNull := map[string]bool{}, map[string]bool{}, map[string]bool{}
	for _, cls := range classes {
		wantClasses++
		if strings.Contains(strings.ToLower(cls.Name), "util") {
			wantUtil++
		}
		for _, mt := range metas[cls] {
			wantMethods++
			if mt.static {
				wantStatic++
			}
			key := cls.Pkg + "." + cls.Name + "." + mt.m.Name
			if mt.nullText {
				textNull[key] = true
			}
			if mt.optional {
				optNull[key] = true
			} else if mt.nullable {
				wantNull[key] = true
			}
		}
	}
	s := model.Summary
	items := append([]string{}, model.Nullable.Items...)
	sort.Strings(items)
	res.Outcome = fmt.Sprintf("classes=%d methods=%d static=%d util=%d nullable=%v", s.ClassCount, s.MethodCount, s.StaticMethodCount, s.UtilsCount, items)
	if s.ClassCount != wantClasses {
		res.Violations = append(res.Violations, engine.V("summary", "class-count", "ClassCount %d, source declares %d", s.ClassCount, wantClasses))
	}
	if s.MethodCount != wantMethods {
		res.Violations = append(res.Violations, engine.V("summary", "method-count", "MethodCount %d, source declares %d", s.MethodCount, wantMethods))
	}
	if s.StaticMethodCount != wantStatic {
		res.Violations = append(res.Violations, engine.V("summary", "static-count", "StaticMethodCount %d, source declares %d static methods (%s)", s.StaticMethodCount, wantStatic, files[0].Content))
	}
	if s.UtilsCount != wantUtil {
		res.Violations = append(res.Violations, engine.V("summary", "util-count", "UtilsCount %d, source has %d utility classes", s.UtilsCount, wantUtil))
	}
	seen := map[string]int{}
	for _, it := range model.Nullable.Items {
		seen[it]++
		if seen[it] > 1 {
			res.Violations = append(res.Violations, engine.V("nullable", "listed-twice", "nullable method %q listed %d times", it, seen[it]))
		}
		if !wantNull[it] && !optNull[it] && textNull[it] {
			res.Violations = append(res.Violations, engine.V("nullable", "not-nullable-listed:return-expression-contains-the-text-null", "method %q is listed as nullable; its return expression only contains the text \"null\" (a variable named nullable, a string literal)", it))
		} else if !wantNull[it] && !optNull[it] {
			res.Violations = append(res.Violations, engine.V("nullable", "not-nullable-listed", "method %q is listed as nullable but neither returns the null literal nor is annotated", it))
		}
	}
	for k := range wantNull {
		if seen[k] == 0 {
			res.Violations = append(res.Violations, engine.V("nullable", "missing", "method %q returns null or is annotated @Nullable/@CheckForNull but is not listed (listed: %v)", k, items))
		}
	}
	return res
}

func c18ModifierGen(c *engine.C) engine.Case {
	maxLen := 4
	if !c.Quick() {
		maxLen = 7
	}
	n := c.Choose(maxLen+1, "modifier-count")
	pool := append([]string{}, c18Mods...)
	var mods []string
	static := false
	for i := 0; i < n; i++ {
		k := c.Choose(len(pool), fmt.Sprintf("mod%d", i))
		mods = append(mods, pool[k])
		if pool[k] == "static" {
			static = true
		}
		pool = append(pool[:k:k], pool[k+1:]...)
	}
	annAt := c.Choose(3, "annotation") // none | first | after-first-modifier
	cls := &jg.Class{Pkg: "p", Name: "Holder", Kind: "class", Mods: []string{"public"}}
	m := &jg.Method{Ret: "int", Name: "calc", Body: []jg.Stmt{jg.St(jg.T("return 1;"))}}
	abstract := false
	for _, md := range mods {
		if md == "abstract" {
			abstract = true
		}
	}
	if abstract {
		m.NoBody = true
		m.Body = nil
	}
	switch annAt {
	case 1:
		m.Anns = []jg.Ann{{Name: "Deprecated"}}
		m.Mods = mods
	case 2:
		if len(mods) > 0 {
			m.Mods = append([]string{mods[0], "@Deprecated"}, mods[1:]...)
		} else {
			m.Mods = []string{"@Deprecated"}
		}
	default:
		m.Mods = mods
	}
	cls.Members = []jg.Member{{Method: m}}
	metas := map[*jg.Class][]c18Method{cls: {{m: m, static: static}}}
	l := jg.DefaultLayout()
	l.AnnSameLine = true
	return func() engine.Result { return c18Eval([]*jg.Class{cls}, metas, l) }
}

var c18ClassNames = []string{"Foo", "FooUtil", "StringUtils", "UserService", "util", "Helper", "ServiceUtil", "OrderServiceUtils", "UtilityService"}
var c18Returns = []string{"return-x", "no-return", "return-null", "null-then-x", "x-then-null", "return-nullable-var", "ann-Nullable", "ann-CheckForNull", "ann-both", "ann-second-position", "return-null-string-literal", "ann-after-synchronized"}

func c18ClassGen(c *engine.C) engine.Case {
	classes, metas, layout := c18BuildClasses(c)
	return func() engine.Result { return c18Eval(classes, metas, layout) }
}

// c18Path: classes of package p lie directly in src/, others below a directory named after their package.
func c18Path(cls *jg.Class) string {
	if cls.Pkg == "p" {
		return "src/" + cls.Name + ".java"
	}
	return "src/" + cls.Pkg + "/" + cls.Name + ".java"
}

func c18BuildClasses(c *engine.C) ([]*jg.Class, map[*jg.Class][]c18Method, jg.Layout) {
	layout, _ := pickLayout(c)
	nc := []int{1, 2}[c.Choose(2, "classes")]
	var classes []*jg.Class
	metas := map[*jg.Class][]c18Method{}
	var shapes0 []int
	for ci := 0; ci < nc; ci++ {
		pfx := fmt.Sprintf("k%d-", ci)
		name := c18ClassNames[c.Choose(len(c18ClassNames), pfx+"name")]
		if ci == 1 {
			// the second class draws from the names the first one did not take
			var rest []string
			for _, n := range c18ClassNames {
				if n != classes[0].Name {
					rest = append(rest, n)
				}
			}
			name = rest[c.Choose(len(rest), pfx+"name2")]
		}
		pkg := "p"
		mirror := false
		if ci == 1 && c.Bool(pfx+"same-simple-name-in-another-package") {
			// by default the like-named class mirrors the method shapes of the first one
			name, pkg, mirror = classes[0].Name, "q", true
			c.Tag("same-simple-name")
		}
		cls := &jg.Class{Pkg: pkg, Name: name, Kind: "class", Mods: []string{"public"}, Imports: []string{"javax.annotation.Nullable", "javax.annotation.CheckForNull"}}
		cls.Members = append(cls.Members, jg.Member{Field: &jg.Field{Mods: []string{"private"}, Type: "Object", Name: "x"}},
			jg.Member{Field: &jg.Field{Mods: []string{"private"}, Type: "Object", Name: "nullable"}},
			jg.Member{Field: &jg.Field{Mods: []string{"private"}, Type: "boolean", Name: "flag"}})
		nm := []int{1, 2, 3, 0}[c.Choose(4, pfx+"methods")]
		for mi := 0; mi < nm; mi++ {
			si := c.Choose(len(c18Returns), fmt.Sprintf("%sm%d-shape", pfx, mi))
			if mirror && mi < len(shapes0) {
				si = (si + shapes0[mi]) % len(c18Returns)
			}
			if ci == 0 {
				shapes0 = append(shapes0, si)
			}
			shape := c18Returns[si]
			mname := fmt.Sprintf("op%d", mi)
			switch c.Choose(3, fmt.Sprintf("%sm%d-name-style", pfx, mi)) {
			case 1:
				mname = fmt.Sprintf("getInstance%d", mi) // accessor-style names are methods like any other
			case 2:
				mname = fmt.Sprintf("settle%d", mi)
			}
			if mi > 0 && c.Bool(fmt.Sprintf("%sm%d-same-name-as-previous", pfx, mi)) {
				mname = fmt.Sprintf("op%d", mi-1)
				c.Tag("duplicate-method-name")
			}
			mods := []string{"public"}
			static := false
			switch c.Choose(3, fmt.Sprintf("%sm%d-mods", pfx, mi)) {
			case 1:
				mods, static = []string{"public", "static"}, true
			case 2:
				mods, static = []string{"static", "public"}, true
			}
			m := &jg.Method{Mods: mods, Ret: "Object", Name: mname}
			if mi > 0 {
				m.Params = []jg.Param{{Type: "int", Name: fmt.Sprintf("p%d", mi)}}
			}
			mt := c18Method{m: m, static: static}
			switch shape {
			case "return-x":
				m.Body = []jg.Stmt{jg.St(jg.T("return x;"))}
			case "no-return":
				m.Ret = "void"
				m.Body = []jg.Stmt{jg.St(jg.T("flag = true;"))}
			case "return-null":
				m.Body = []jg.Stmt{jg.St(jg.T("return null;"))}
				mt.nullable = true
			case "null-then-x":
				m.Body = []jg.Stmt{jg.St(jg.T("if (flag) {\n    return null;\n}")), jg.St(jg.T("return x;"))}
				mt.nullable = true
			case "x-then-null":
				m.Body = []jg.Stmt{jg.St(jg.T("if (flag) {\n    return x;\n}")), jg.St(jg.T("return null;"))}
				mt.nullable = true
			case "return-nullable-var":
				m.Body = []jg.Stmt{jg.St(jg.T("return nullable;"))}
				mt.nullText = true
			case "return-null-string-literal":
				m.Body = []jg.Stmt{jg.St(jg.T("return \"null\";"))}
				mt.nullText = true
			case "ann-Nullable":
				m.Anns = []jg.Ann{{Name: "Nullable"}}
				m.Body = []jg.Stmt{jg.St(jg.T("return x;"))}
				mt.nullable = true
			case "ann-CheckForNull":
				m.Anns = []jg.Ann{{Name: "CheckForNull"}}
				m.Body = []jg.Stmt{jg.St(jg.T("return x;"))}
				mt.nullable = true
			case "ann-both":
				m.Anns = []jg.Ann{{Name: "Nullable"}, {Name: "CheckForNull"}}
				m.Body = []jg.Stmt{jg.St(jg.T("return x;"))}
				mt.nullable = true
			case "ann-after-synchronized":
				// modifiers without an annotation form of their own in front of the annotation
				m.Mods = append(m.Mods, "synchronized")
				m.Anns = nil
				m.Ret = "@Nullable Object"
				m.Body = []jg.Stmt{jg.St(jg.T("return x;"))}
				mt.nullable = true
			case "ann-second-position":
				m.Anns = []jg.Ann{{Name: "Deprecated"}, {Name: "Nullable"}}
				m.Body = []jg.Stmt{jg.St(jg.T("return x;"))}
				mt.nullable = true
			}
			if shape != "return-x" {
				c.Tag("shape=" + shape)
			}
			cls.Members = append(cls.Members, jg.Member{Method: m})
			metas[cls] = append(metas[cls], mt)
		}
		classes = append(classes, cls)
	}
	// overloads share the listed name: if any like-named method is nullable the name is expected, if shapes
	// disagree the name is optional only when no like-named method is nullable
	for _, cls := range classes {
		by := map[string][]int{}
		for i, mt := range metas[cls] {
			by[mt.m.Name] = append(by[mt.m.Name], i)
		}
		for _, idx := range by {
			anyNull := false
			for _, i := range idx {
				anyNull = anyNull || metas[cls][i].nullable
			}
			anyText := false
			for _, i := range idx {
				anyText = anyText || metas[cls][i].nullText
			}
			for _, i := range idx {
				metas[cls][i].nullable = anyNull
				metas[cls][i].nullText = anyText
			}
		}
	}
	return classes, metas, layout
}

// ---- (e) concept words ----------------------------------------------------------------------------------

var c18Names = []string{"findUser", "find", "findUserById", "getName", "x", "saveOrderItem", "orderItem", "calculateTotalPrice", "user",
	// names that merely begin with the letters of an accessor prefix, and real accessors of acronyms
	"setup", "getall", "settings", "setURL", "getname", "set",
	// digits and underscores inside a name (how such names are cut into words is not compared, see below)
	"parseV2_header", "header__blog", "_lead", "x2"}

func refSegment(name string) []string {
	var words []string
	cur := ""
	rs := []rune(name)
	for i, r := range rs {
		if i > 0 && unicode.IsUpper(r) && unicode.IsLower(rs[i-1]) {
			words = append(words, strings.ToLower(cur))
			cur = ""
		}
		cur += string(r)
	}
	if cur != "" {
		words = append(words, strings.ToLower(cur))
	}
	return words
}

func c18ConceptGen(c *engine.C) engine.Case {
	n := 1 + c.Choose(3, "names")
	var names []string
	for i := 0; i < n; i++ {
		names = append(names, c18Names[c.Choose(len(c18Names), fmt.Sprintf("n%d", i))])
	}
	split := c.Bool("two-classes")
	return func() engine.Result {
		res := engine.Result{InputKey: strings.Join(names, ",") + fmt.Sprint(split), Input: names, Nontrivial: true}
		var deps []core_domain.CodeDataStruct
		a := core_domain.CodeDataStruct{Package: "p", NodeName: "A"}
		b := core_domain.CodeDataStruct{Package: "p", NodeName: "B"}
		for i, nm := range names {
			if split && i%2 == 1 {
				b.Functions = append(b.Functions, core_domain.CodeFunction{Name: nm})
			} else {
				a.Functions = append(a.Functions, core_domain.CodeFunction{Name: nm})
			}
		}
		deps = []core_domain.CodeDataStruct{a, b}
		stop := map[string]bool{}
		for _, w := range languages2.ENGLISH_STOP_WORDS {
			stop[w] = true
		}
		for _, w := range constants.TechStopWords {
			stop[w] = true
		}
		// names with digits or underscores: the statement does not say how they are cut; only "no empty word,
		// no stop word, key order" is required of the listing then
		fuzzy := false
		for _, nm := range names {
			fuzzy = fuzzy || strings.ContainsAny(nm, "_0123456789")
		}
		want := map[string]int{}
		total := 0
		for _, nm := range names {
			for _, w := range refSegment(nm) {
				if !stop[w] {
					want[w]++
					total++
				}
			}
		}
		pl := concept.NewConceptAnalyser().Analysis(&deps)
		sum := 0
		var rows []string
		for i, p := range pl {
			sum += p.Value
			rows = append(rows, fmt.Sprintf("%s=%d", p.Key, p.Value))
			if i > 0 && pl[i-1].Key > p.Key {
				res.Violations = append(res.Violations, engine.V("concept", "listing-order", "concept listing not in key order"))
			}
			if stop[p.Key] {
				res.Violations = append(res.Violations, engine.V("concept", "stop-word-listed", "stop word %q listed", p.Key))
			}
			if strings.TrimSpace(p.Key) == "" {
				res.Violations = append(res.Violations, engine.V("concept", "empty-word-listed", "an empty word is listed (%d times) for the method names %v; listed %v", p.Value, names, rows))
			}
		}
		res.Outcome = strings.Join(rows, " ")
		if fuzzy {
			return res
		}
		got := map[string]int{}
		for _, p := range pl {
			got[p.Key] += p.Value
		}
		for w, n := range want {
			if got[w] != n {
				res.Violations = append(res.Violations, engine.V("concept", "word-count", "word %q counted %d times, the method names %v contain it %d times; listed %v", w, got[w], names, n, rows))
				break
			}
		}
		if sum != total {
			res.Violations = append(res.Violations, engine.V("concept", "sum", "word counts sum to %d, the method names %v contain %d non-stop words (%v); listed %v", sum, names, total, want, rows))
		}
		return res
	}
}

func init() {
	engine.Register(&engine.Spec{
		ID:    "C18",
		Title: "Reference counts and evaluation statistics equal what the model contains",
		Rule: "X1: (a) reference counts over the abstract call models of C03 (full product on 3 nodes, multigraphs on 2 nodes with unresolved/undeclared/overloaded callees, sparse 5-node graphs); " +
			"(b) every permutation of every subset of <=4 (quick) / <=7 (thorough, all 13 700) of the 7 method modifiers, with an annotation before or among them; (c)-(d) deviation-bounded classes: 6 class names x 0..3 methods x 11 return/annotation shapes x modifier orders x duplicated method names x 12 layouts; " +
			"(e) full product of 1..3 method names from 9 camel-case shapes over one or two classes. Non-trivial: every case. Distinct = distinct model / source.",
		Assumptions: []string{
			"stop words = the two lists the tool ships; reference segmentation splits at lower->Upper boundaries (names with acronyms or digits are outside the alphabet)",
			"constructors are outside the alphabet of the evaluation summary ('methods')",
			"a method name shared by several overloads is expected in the nullable list iff one of them is nullable",
			"standard deviations and ServiceSummary are not compared",
		},
		Sections: []engine.Section{
			{Name: "count-full-n3", KQuick: -1, KThor: -1, Gen: c18CountGen(graphOpts{N: 3, MaxMult: 1, DistMenu: true})},
			{Name: "count-multi-n2", KQuick: -1, KThor: -1, Gen: c18CountGen(graphOpts{N: 2, MaxMult: 2, Extras: true, DistMenu: true})},
			{Name: "count-dev-n5", KQuick: 3, KThor: 4, Gen: c18CountGen(graphOpts{N: 5, MaxMult: 2, Extras: true, DistMenu: true})},
			{Name: "modifier-permutations", KQuick: -1, KThor: -1, Gen: c18ModifierGen},
			{Name: "evaluate-classes", KQuick: 3, KThor: 4, Gen: c18ClassGen},
			{Name: "concept-names", KQuick: -1, KThor: -1, Gen: c18ConceptGen},
			{Name: "through-coca-count", KQuick: 1, KThor: 2, Gen: cliGraphGen},
			{Name: "through-coca-evaluate-concept", KQuick: 1, KThor: 2, Gen: cliEvaluateGen},
		},
	})
}
