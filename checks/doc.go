// Package checks wires, per property, a generator (choice points), the call into the real implementation
// and the reference model (oracle). See /verif/DESIGN.md section 4.
package checks
