package checks

import (
	"encoding/csv"
	"encoding/json"
	"fmt"
	"os"
	"path/filepath"
	"sort"
	"strconv"
	"strings"

	"verif/engine"
)

type c16File struct {
	Dir, Name, Lang       string
	Code, Comment, Blank  int
}

var c16Langs = []struct{ Lang, Ext, CodeLine, CommentLine string }{
	{"Java", ".java", "int x%d = %d;", "// comment %d"},
	{"Go", ".go", "var x%d = %d", "// comment %d"},
	{"Python", ".py", "x%d = %d", "# comment %d"},
	{"Markdown", ".md", "text line %d %d", ""},
	{"JavaScript", ".js", "var x%d = %d;", "// comment %d"},
	{"C", ".c", "int x%d = %d;", "// comment %d"},
	{"C++", ".cpp", "int y%d = %d;", "// comment %d"},
	{"C Header", ".h", "extern int z%d; // %d", "// comment %d"},
}

func c16Content(f c16File) string {
	var sb strings.Builder
	var spec = c16Langs[0]
	for _, l := range c16Langs {
		if l.Lang == f.Lang {
			spec = l
		}
	}
	for i := 0; i < f.Comment; i++ {
		fmt.Fprintf(&sb, spec.CommentLine+"\n", i)
	}
	for i := 0; i < f.Code; i++ {
		fmt.Fprintf(&sb, spec.CodeLine+"\n", i, i)
		if i < f.Blank {
			sb.WriteString("\n")
		}
	}
	return sb.String()
}

func c16Gen(c *engine.C) engine.Case {
	var files []c16File
	var dirs []string
	nd := []int{2, 1, 3, 0}[c.Choose(4, "subdirs")]
	sizes := []int{3, 1, 5, 0}
	fileIdx := 0
	addFiles := func(dir, pfx string, defCount int) {
		n := []int{defCount, 0, 1, 2, 3}[c.Choose(5, pfx+"files")]
		for i := 0; i < n; i++ {
			li := (c.Choose(len(c16Langs), fmt.Sprintf("%sf%d-lang", pfx, i)) + i) % len(c16Langs)
			code := sizes[(c.Choose(len(sizes), fmt.Sprintf("%sf%d-code", pfx, i))+fileIdx)%len(sizes)]
			f := c16File{Dir: dir, Lang: c16Langs[li].Lang, Code: code}
			if c16Langs[li].CommentLine != "" {
				f.Comment = c.Choose(3, fmt.Sprintf("%sf%d-comments", pfx, i))
			}
			f.Blank = c.Choose(2, fmt.Sprintf("%sf%d-blanks", pfx, i))
			f.Name = fmt.Sprintf("f%d%s", fileIdx, c16Langs[li].Ext)
			fileIdx++
			files = append(files, f)
		}
	}
	for d := 0; d < nd; d++ {
		name := []string{"alpha", "beta", "v1.2"}[d]
		dirs = append(dirs, name)
		addFiles(name, fmt.Sprintf("d%d-", d), 2)
		if c.Bool(fmt.Sprintf("d%d-nested-subdir", d)) {
			addFiles(filepath.Join(name, "inner", "deep"), fmt.Sprintf("d%d-n-", d), 1)
		}
	}
	addFiles("", "root-", 0)
	if c.Bool("one-directory-with-a-file-of-every-language") {
		// more languages than the top-file tables print (5); two languages with several files in growing size
		c.Tag("many-languages")
		dirs = append(dirs, "poly")
		for li, l := range c16Langs {
			files = append(files, c16File{Dir: "poly", Lang: l.Lang, Code: 2 + li%3, Name: fmt.Sprintf("p%d%s", li, l.Ext)})
		}
		for k, code := range []int{4, 9, 6} {
			files = append(files, c16File{Dir: "poly", Lang: "Java", Code: code, Name: fmt.Sprintf("q%d.java", k)},
				c16File{Dir: "poly", Lang: "C", Code: code + 1, Name: fmt.Sprintf("q%d.c", k)})
		}
	}
	var ignored []string
	special := engine.PickTag(c, "special-dirs", "none", ".git", ".idea", "coca_reporter", "empty-dir", ".idea+empty", ".git+.idea", ".idea+coca_reporter", ".git+.idea+coca_reporter", ".idea+nested-namesake", "coca_reporter+nested-namesake", ".github+.ideas+coca_reporter_old")
	emptyDir := false
	switch special {
	case ".git", ".idea", "coca_reporter":
		ignored = []string{special}
	case "empty-dir":
		emptyDir = true
	case ".idea+empty":
		ignored, emptyDir = []string{".idea"}, true
	case ".idea+nested-namesake", "coca_reporter+nested-namesake":
		// an ignored directory at the root, and directories of the same name further down in ordinary
		// subdirectories (their files belong to those subdirectories)
		ig := strings.TrimSuffix(special, "+nested-namesake")
		ignored = []string{ig}
		for k, d := range append(append([]string{}, dirs...), "zeta") {
			files = append(files, c16File{Dir: filepath.Join(d, ig), Lang: "Java", Code: 3 + k, Name: fmt.Sprintf("n%d.java", k)})
		}
		dirs = append(dirs, "zeta")
	case ".github+.ideas+coca_reporter_old":
		// ordinary directories whose names merely begin with the name of an ignored one: each has a row
		for k, d := range strings.Split(special, "+") {
			dirs = append(dirs, d)
			files = append(files, c16File{Dir: d, Lang: "Java", Code: 4 + k, Name: fmt.Sprintf("g%d.java", k)})
		}
	case ".git+.idea", ".idea+coca_reporter", ".git+.idea+coca_reporter":
		// several ignored directories that are neighbours in the directory listing
		ignored = strings.Split(special, "+")
	}
	include := engine.PickTag(c, "include-ext", "none", "java", "java,go", "java,js", "c,cpp,h")
	topSize := []int{30, 1, 2}[c.Choose(3, "top-size")]
	// the report directory already holds the reports of an earlier state of the tree (one more file in every subdirectory)
	earlier := c.Bool("reports-of-an-earlier-state-present")
	// the order in which the languages are listed (the counter's --sort option); the files of a language keep their order
	sortBy := engine.PickTag(c, "sort-languages-by", "default", "name", "code", "lines")
	return func() engine.Result { return c16Check(files, dirs, ignored, emptyDir, include, topSize, earlier, sortBy) }
}

func c16Check(files []c16File, dirs, ignored []string, emptyDir bool, include string, topSize int, earlier bool, sortBy string) engine.Result {
	var specs []FileSpec
	for _, f := range files {
		specs = append(specs, FileSpec{Path: filepath.Join("proj", f.Dir, f.Name), Content: c16Content(f)})
	}
	for _, ig := range ignored {
		specs = append(specs, FileSpec{Path: filepath.Join("proj", ig, "Hidden.java"), Content: "int hidden = 1;\nint hidden2 = 2;\n"})
	}
	specs = append(specs, FileSpec{Path: "proj/.keep-root", Content: ""})
	res := engine.Result{InputKey: filesKey(specs) + fmt.Sprint(dirs, ignored, emptyDir, include, topSize, earlier, sortBy),
		Input: map[string]interface{}{"files": files, "ignored_dirs": ignored, "empty_dir": emptyDir, "include_ext": include, "top_size": topSize, "reports_of_an_earlier_state_present": earlier, "sort_languages_by": sortBy}, Nontrivial: len(files) > 0}
	root, cleanup := materialise(specs)
	defer cleanup()
	for _, d := range dirs {
		os.MkdirAll(filepath.Join(root, "proj", d), 0o755)
	}
	if emptyDir {
		os.MkdirAll(filepath.Join(root, "proj", "hollow"), 0o755)
		dirs = append(append([]string{}, dirs...), "hollow")
	}
	allowed := map[string]bool{}
	if include != "none" {
		for _, e := range strings.Split(include, ",") {
			allowed["."+e] = true
		}
	}
	counted := func(f c16File) bool { return include == "none" || allowed[filepath.Ext(f.Name)] }
	// ground truth
	type cell struct{ dir, lang string }
	truth := map[cell]int{}
	langsAll := map[string]bool{}
	for _, f := range files {
		if !counted(f) {
			continue
		}
		langsAll[f.Lang] = true
		if f.Dir != "" {
			top := strings.Split(f.Dir, string(filepath.Separator))[0]
			truth[cell{top, f.Lang}] += f.Code
		}
	}
	extra := []string{}
	if include != "none" {
		extra = []string{"-i", include}
	}
	var out []string
	if earlier {
		var gone []string
		for _, d := range dirs {
			p := filepath.Join(root, "proj", d, "Earlier.java")
			os.WriteFile(p, []byte("int a = 1;\nint b = 2;\nint c = 3;\nint d = 4;\nint e = 5;\n"), 0o644)
			gone = append(gone, p)
		}
		if r0 := runCLI(root, append([]string{"cloc", "proj", "--by-directory"}, extra...)...); r0.Exit != 0 {
			res.Violations = append(res.Violations, engine.V("cli", "exit-status", "coca cloc --by-directory (earlier state) exited %d: %s", r0.Exit, trimTo(r0.Stderr+r0.Stdout, 600)))
			return res
		}
		for _, p := range gone {
			os.Remove(p)
		}
	}
	// --- by-directory
	r := runCLI(root, append([]string{"cloc", "proj", "--by-directory"}, extra...)...)
	if r.Exit != 0 {
		res.Outcome = "CLI-FAILED"
		res.Violations = append(res.Violations, engine.V("cli", "exit-status", "coca cloc --by-directory exited %d: %s", r.Exit, trimTo(r.Stderr+r.Stdout, 600)))
		return res
	}
	fh, err := os.Open(filepath.Join(root, "coca_reporter", "cloc.csv"))
	if err != nil {
		res.Violations = append(res.Violations, engine.V("cli", "no-report", "cloc.csv not written: %v", err))
		return res
	}
	rows, err := csv.NewReader(fh).ReadAll()
	fh.Close()
	if err != nil || len(rows) == 0 {
		res.Violations = append(res.Violations, engine.V("by-directory", "csv-unreadable", "cloc.csv: %v (%d rows)", err, len(rows)))
		return res
	}
	header := rows[0]
	out = append(out, "header "+strings.Join(header, ","))
	if len(header) < 2 || header[0] != "package" || header[1] != "summary" {
		res.Violations = append(res.Violations, engine.V("by-directory", "header", "header %v does not start with package,summary", header))
		return res
	}
	hl := map[string]int{}
	for i, h := range header[2:] {
		hl[h]++
		_ = i
	}
	for l := range langsAll {
		if hl[l] != 1 {
			res.Violations = append(res.Violations, engine.V("by-directory", "header-language", "language %s of the tree appears %d times in the header %v", l, hl[l], header))
		}
	}
	for h := range hl {
		if !langsAll[h] && !(len(ignored) > 0 && h == "Java" && include != "none" && allowed[".java"]) && !(len(ignored) > 0 && h == "Java" && include == "none") {
			res.Violations = append(res.Violations, engine.V("by-directory", "header-language-unknown", "header names language %s which no counted file of the tree has", h))
		}
	}
	seenRow := map[string]int{}
	var rowStrs []string
	for _, row := range rows[1:] {
		rowStrs = append(rowStrs, strings.Join(row, ","))
		if len(row) != len(header) {
			res.Violations = append(res.Violations, engine.V("by-directory", "row-width", "row %v has %d cells, header has %d", row, len(row), len(header)))
			continue
		}
		seenRow[row[0]]++
		sum := 0
		for i, h := range header[2:] {
			v, _ := strconv.Atoi(row[2+i])
			sum += v
			if want := truth[cell{row[0], h}]; v != want {
				res.Violations = append(res.Violations, engine.V("by-directory", "cell", "directory %s, %s: %d reported, %d code lines written", row[0], h, v, want))
			}
		}
		if s, _ := strconv.Atoi(row[1]); s != sum {
			res.Violations = append(res.Violations, engine.V("by-directory", "summary", "directory %s: summary %s, cells add up to %d", row[0], row[1], sum))
		}
	}
	sort.Strings(rowStrs)
	out = append(out, rowStrs...)
	for _, d := range dirs {
		if seenRow[d] != 1 {
			res.Violations = append(res.Violations, engine.V("by-directory", "row-count", "subdirectory %s has %d rows (rows: %v)", d, seenRow[d], rowStrs))
		}
	}
	for d := range seenRow {
		known := false
		for _, x := range dirs {
			known = known || x == d
		}
		if !known {
			kind := "row-for-unknown-directory"
			for _, ig := range ignored {
				if ig == d {
					kind = "row-for-ignored-directory"
				}
			}
			res.Violations = append(res.Violations, engine.V("by-directory", kind, "row for %q which is not a countable immediate subdirectory", d))
		}
	}
	// stdout carries the same rows
	for _, row := range rows {
		if !strings.Contains(r.Stdout, strings.Join(row, ",")) {
			res.Violations = append(res.Violations, engine.V("by-directory", "stdout", "row %v not printed on stdout", row))
			break
		}
	}
	// --- top-file (fresh process, fresh report directory)
	os.RemoveAll(filepath.Join(root, "coca_reporter"))
	topArgs := append([]string{"cloc", "proj", "--top-file", "--top-size", strconv.Itoa(topSize)}, extra...)
	if sortBy != "default" {
		topArgs = append(topArgs, "--sort", sortBy)
	}
	r2 := runCLI(root, topArgs...)
	if r2.Exit != 0 {
		res.Violations = append(res.Violations, engine.V("cli", "exit-status", "coca cloc --top-file exited %d: %s", r2.Exit, trimTo(r2.Stderr+r2.Stdout, 600)))
		res.Outcome = strings.Join(out, "\n")
		return res
	}
	perLang := map[string][]int{}
	for _, f := range files {
		if counted(f) {
			perLang[f.Lang] = append(perLang[f.Lang], f.Code)
		}
	}
	for _, ig := range ignored {
		if ig == ".idea" || ig == "coca_reporter" {
			if include == "none" || allowed[".java"] {
				perLang["Java"] = append(perLang["Java"], 2)
			}
		}
	}
	for l := range perLang {
		sort.Sort(sort.Reverse(sort.IntSlice(perLang[l])))
	}
	// stdout tables
	tables := map[string][]int{}
	cur := ""
	for _, line := range strings.Split(r2.Stdout, "\n") {
		if strings.HasPrefix(line, "Language: ") {
			cur = strings.TrimPrefix(line, "Language: ")
			tables[cur] = []int{}
			continue
		}
		if cur != "" && strings.HasPrefix(strings.TrimSpace(line), "|") {
			cells := strings.Split(line, "|")
			if len(cells) >= 4 {
				if v, err := strconv.Atoi(strings.TrimSpace(cells[1])); err == nil {
					tables[cur] = append(tables[cur], v)
				}
			}
		}
	}
	if len(perLang) <= 5 {
		for l, want := range perLang {
			got, ok := tables[l]
			if !ok {
				res.Violations = append(res.Violations, engine.V("top-file", "language-missing", "no table for language %s", l))
				continue
			}
			n := len(want)
			if n > topSize {
				n = topSize
			}
			if fmt.Sprint(got) != fmt.Sprint(want[:n]) {
				kind := "figures"
				if len(got) != n {
					kind = "truncation"
				} else if !sort.IsSorted(sort.Reverse(sort.IntSlice(got))) {
					kind = "order"
				}
				res.Violations = append(res.Violations, engine.V("top-file", kind, "language %s: table lists code lines %v, want the top %d of %v", l, got, topSize, want))
			}
			out = append(out, fmt.Sprintf("top %s %v", l, got))
		}
	}
	b, err := os.ReadFile(filepath.Join(root, "coca_reporter", "sort_cloc.json"))
	if err != nil {
		res.Violations = append(res.Violations, engine.V("top-file", "no-report", "sort_cloc.json not written"))
	} else {
		var sums []struct {
			Name  string
			Files []struct {
				Code     int
				Location string
			}
		}
		if err := json.Unmarshal(b, &sums); err != nil {
			res.Violations = append(res.Violations, engine.V("top-file", "report-unparsable", "sort_cloc.json: %v", err))
		}
		for _, s := range sums {
			var got []int
			for _, f := range s.Files {
				got = append(got, f.Code)
			}
			if fmt.Sprint(got) != fmt.Sprint(perLang[s.Name]) {
				kind := "json-figures"
				if !sort.IsSorted(sort.Reverse(sort.IntSlice(got))) {
					kind = "json-order"
				}
				res.Violations = append(res.Violations, engine.V("top-file", kind, "sort_cloc.json language %s: %v, want %v", s.Name, got, perLang[s.Name]))
			}
		}
	}
	sort.Strings(out)
	res.Outcome = strings.Join(out, "\n")
	return res
}

func init() {
	engine.Register(&engine.Spec{
		ID:    "C16",
		Title: "Per-directory line counts add up and agree with the whole-tree count",
		Rule: "X1 over directory trees with ground truth by construction: 0..3 immediate subdirectories (one with a dot in its name) x 0..3 files each in 8 languages (incl. pairs whose names are prefixes of each other: Java/JavaScript, C/C++/C Header) x code {0,1,3,5} / comment {0,1,2} / blank lines x nested sub-subdirectories x files in the root x special directories (.git, .idea, coca_reporter, empty) x include-ext {none, java, java+go} x top-size {30,1,2}; deviation-bounded; " +
			"each tree is counted by `coca cloc DIR --by-directory` and `coca cloc DIR --top-file --top-size N` in child processes. Non-trivial = the tree has files.",
		Assumptions: []string{
			"line kinds are unambiguous (one statement per code line, whole-line comments, empty blank lines)",
			"the header may name a language that only an ignored (.idea / coca_reporter) directory contains",
			"top-file rows are matched by their code-line figures (the printed location is not compared)",
		},
		Sections: []engine.Section{{Name: "trees", KQuick: 2, KThor: 4, Gen: c16Gen}},
	})
}
