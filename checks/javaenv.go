package checks

import (
	"fmt"
	"os"
	"path/filepath"
	"sort"
	"strings"

	"github.com/antlr/antlr4/runtime/Go/antlr/v4"
	parser "github.com/modernizing/coca/languages/java"
	"github.com/modernizing/coca/pkg/application/analysis/javaapp"
	"github.com/modernizing/coca/pkg/domain/core_domain"
)

// tmpRoot: scratch space for materialised inputs; removed per case.
func tmpRoot() string {
	if fi, err := os.Stat("/dev/shm"); err == nil && fi.IsDir() {
		return "/dev/shm"
	}
	return os.TempDir()
}

// FileSpec is one file of a generated tree (path relative to the case root).
type FileSpec struct {
	Path    string
	Content string
}

// materialise writes the files under a fresh directory whose name is not observable to the oracles.
func materialise(files []FileSpec) (root string, cleanup func()) {
	root, err := os.MkdirTemp(tmpRoot(), "mccase")
	if err != nil {
		panic(err)
	}
	for _, f := range files {
		p := filepath.Join(root, f.Path)
		if err := os.MkdirAll(filepath.Dir(p), 0o755); err != nil {
			panic(err)
		}
		if err := os.WriteFile(p, []byte(f.Content), 0o644); err != nil {
			panic(err)
		}
	}
	return root, func() { os.RemoveAll(root) }
}

func filesInput(files []FileSpec) map[string]string {
	m := map[string]string{}
	for _, f := range files {
		m[f.Path] = f.Content
	}
	return m
}

func filesKey(files []FileSpec) string {
	var sb strings.Builder
	for _, f := range files {
		sb.WriteString("=== " + f.Path + "\n" + f.Content + "\n")
	}
	return sb.String()
}

type countingErrorListener struct {
	*antlr.DefaultErrorListener
	n     int
	first string
}

func (l *countingErrorListener) SyntaxError(recognizer antlr.Recognizer, offendingSymbol interface{}, line, column int, msg string, e antlr.RecognitionException) {
	l.n++
	if l.first == "" {
		l.first = fmt.Sprintf("%d:%d %s", line, column, msg)
	}
}

// javaSyntaxErrors parses src with coca's own Java grammar; a generated unit with syntax errors is a
// generator bug (the case is skipped and counted, never a verdict).
func javaSyntaxErrors(src string) (int, string) {
	is := antlr.NewInputStream(src)
	lexer := parser.NewJavaLexer(is)
	el := &countingErrorListener{DefaultErrorListener: antlr.NewDefaultErrorListener()}
	lexer.RemoveErrorListeners()
	lexer.AddErrorListener(el)
	stream := antlr.NewCommonTokenStream(lexer, 0)
	p := parser.NewJavaParser(stream)
	p.RemoveErrorListeners()
	p.AddErrorListener(el)
	p.CompilationUnit()
	return el.n, el.first
}

func validateJava(files []FileSpec) string {
	for _, f := range files {
		if strings.HasSuffix(f.Path, ".java") {
			if n, first := javaSyntaxErrors(f.Content); n > 0 {
				return fmt.Sprintf("generated unit %s has %d syntax errors (%s)", f.Path, n, first)
			}
		}
	}
	return ""
}

func identPass(files []string) []core_domain.CodeDataStruct {
	app := javaapp.NewJavaIdentifierApp()
	return app.AnalysisFiles(files)
}

func fullPass(idents []core_domain.CodeDataStruct, files []string) []core_domain.CodeDataStruct {
	app := javaapp.NewJavaFullApp()
	return app.AnalysisFiles(idents, files)
}

func absFiles(root string, files []FileSpec, pred func(FileSpec) bool) []string {
	var r []string
	for _, f := range files {
		if pred == nil || pred(f) {
			r = append(r, filepath.Join(root, f.Path))
		}
	}
	sort.Strings(r)
	return r
}

func rel(root, p string) string {
	r, err := filepath.Rel(root, p)
	if err != nil {
		return p
	}
	return r
}
