package checks

import (
	"fmt"
	"sort"
	"strings"

	"github.com/modernizing/coca/pkg/application/analysis/goapp"
	"github.com/modernizing/coca/pkg/application/analysis/pyapp"
	"github.com/modernizing/coca/pkg/domain/core_domain"
	"verif/engine"
)

// ---- Python -------------------------------------------------------------------------------------------

type pyImport struct {
	Text    string
	Sources []string // module names imported by an `import` statement
	From    string   // for from-imports
	Names   []string
}

var c20PyImports = []pyImport{
	{Text: "import os", Sources: []string{"os"}},
	{Text: "import os.path", Sources: []string{"os.path"}},
	{Text: "import numpy as np", Sources: []string{"numpy"}},
	{Text: "import sys, json", Sources: []string{"sys", "json"}},
	{Text: "from typing import List", From: "typing", Names: []string{"List"}},
	{Text: "from typing import Dict, Optional", From: "typing", Names: []string{"Dict", "Optional"}},
	{Text: "from collections import (OrderedDict, defaultdict)", From: "collections", Names: []string{"OrderedDict", "defaultdict"}},
	{Text: "from . import sibling", From: ".", Names: []string{"sibling"}},
}

type pyFunc struct {
	Name       string
	Decorators []string // as written after '@'
	Nested     bool
}
type pyClass struct {
	Name       string
	Decorators []string
	Methods    []pyFunc
}

func c20PyDecos(c *engine.C, label string) []string {
	switch c.Choose(4, label) {
	case 1:
		return []string{"staticmethod"}
	case 2:
		return []string{"app.route(\"/x\")"}
	case 3:
		return []string{"first", "second(1, b=2)"}
	}
	return nil
}

func c20PyGen(c *engine.C) engine.Case {
	var imports []pyImport
	ni := []int{1, 0, 2, 3}[c.Choose(4, "imports")]
	for i := 0; i < ni; i++ {
		imports = append(imports, c20PyImports[(c.Choose(len(c20PyImports), fmt.Sprintf("imp%d", i))+i)%len(c20PyImports)])
	}
	var classes []pyClass
	nc := []int{1, 0, 2}[c.Choose(3, "classes")]
	for i := 0; i < nc; i++ {
		k := pyClass{Name: []string{"Alpha", "Beta"}[i], Decorators: c20PyDecos(c, fmt.Sprintf("class%d-decorators", i))}
		nm := []int{1, 0, 2}[c.Choose(3, fmt.Sprintf("class%d-methods", i))]
		for j := 0; j < nm; j++ {
			k.Methods = append(k.Methods, pyFunc{Name: fmt.Sprintf("m%d%d", i, j), Decorators: c20PyDecos(c, fmt.Sprintf("class%d-m%d-decorators", i, j)),
				Nested: c.Bool(fmt.Sprintf("class%d-m%d-nested-def", i, j))})
		}
		classes = append(classes, k)
	}
	var funcs []pyFunc
	nf := []int{1, 0, 2}[c.Choose(3, "functions")]
	for i := 0; i < nf; i++ {
		funcs = append(funcs, pyFunc{Name: fmt.Sprintf("fn%d", i), Decorators: c20PyDecos(c, fmt.Sprintf("fn%d-decorators", i)), Nested: c.Bool(fmt.Sprintf("fn%d-nested-def", i))})
	}
	funcsFirst := c.Bool("functions-before-classes")
	var sb strings.Builder
	for _, im := range imports {
		sb.WriteString(im.Text + "\n")
	}
	sb.WriteString("\n")
	writeFunc := func(f pyFunc, ind string, self bool) {
		for _, d := range f.Decorators {
			sb.WriteString(ind + "@" + d + "\n")
		}
		args := "x"
		if self {
			args = "self, x"
		}
		sb.WriteString(ind + "def " + f.Name + "(" + args + "):\n")
		if f.Nested {
			sb.WriteString(ind + "    def inner_" + f.Name + "(y):\n" + ind + "        return y\n")
		}
		sb.WriteString(ind + "    return x\n\n")
	}
	writeClasses := func() {
		for _, k := range classes {
			for _, d := range k.Decorators {
				sb.WriteString("@" + d + "\n")
			}
			sb.WriteString("class " + k.Name + ":\n")
			if len(k.Methods) == 0 {
				sb.WriteString("    pass\n\n")
			}
			for _, m := range k.Methods {
				writeFunc(m, "    ", true)
			}
		}
	}
	writeFuncs := func() {
		for _, f := range funcs {
			writeFunc(f, "", false)
		}
	}
	if funcsFirst {
		writeFuncs()
		writeClasses()
	} else {
		writeClasses()
		writeFuncs()
	}
	src := sb.String()
	// a module analysed earlier in the same process (as CommonAnalysis does for a directory) must not matter
	before := engine.PickTag(c, "module-analysed-before", "none", "flat-module", "module-ending-inside-nested-blocks", "module-with-open-bracket-continuation")
	return func() engine.Result {
		res := engine.Result{InputKey: before + "|" + src, Input: map[string]string{"analysed_before": before, "module": src}, Nontrivial: len(classes)+len(funcs)+len(imports) > 0}
		app := new(pyapp.PythonIdentApp)
		switch before {
		case "flat-module":
			app.Analysis("import sys\n\ndef early(x):\n    return x\n", "early.py")
		case "module-ending-inside-nested-blocks":
			app.Analysis("class Deep:\n    def a(self):\n        if self:\n            for i in range(3):\n                return i", "deep.py")
		case "module-with-open-bracket-continuation":
			app.Analysis("values = [\n    1,\n    2,\n]\n\ndef tail(\n        a,\n        b):\n    return (a +\n            b)\n", "cont.py")
		}
		cf := app.Analysis(src, "mod.py")
		var out []string
		decoNames := func(as []core_domain.CodeAnnotation) string {
			var r []string
			for _, a := range as {
				var kv []string
				for _, k := range a.KeyValues {
					kv = append(kv, k.Value)
				}
				s := a.Name
				if len(kv) > 0 {
					s += "(" + strings.Join(kv, ",") + ")"
				}
				r = append(r, s)
			}
			return strings.Join(r, ";")
		}
		wantDeco := func(ds []string) string {
			var r []string
			for _, d := range ds {
				r = append(r, strings.ReplaceAll(d, " ", ""))
			}
			return strings.Join(r, ";")
		}
		// classes
		byName := map[string][]core_domain.CodeDataStruct{}
		for _, d := range cf.DataStructures {
			byName[d.NodeName] = append(byName[d.NodeName], d)
			var ms []string
			for _, f := range d.Functions {
				ms = append(ms, f.Name)
			}
			out = append(out, "class "+d.NodeName+"["+decoNames(d.Annotations)+"]{"+strings.Join(ms, ",")+"}")
		}
		for _, k := range classes {
			if len(byName[k.Name]) != 1 {
				res.Violations = append(res.Violations, engine.V("python-classes", "entry-count", "class %s listed %d times", k.Name, len(byName[k.Name])))
				continue
			}
			d := byName[k.Name][0]
			if decoNames(d.Annotations) != wantDeco(k.Decorators) {
				res.Violations = append(res.Violations, engine.V("python-classes", "decorators", "class %s decorators %q, written %q", k.Name, decoNames(d.Annotations), wantDeco(k.Decorators)))
			}
			got := map[string]core_domain.CodeFunction{}
			cnt := map[string]int{}
			for _, f := range d.Functions {
				got[f.Name] = f
				cnt[f.Name]++
			}
			for _, m := range k.Methods {
				if cnt[m.Name] != 1 {
					res.Violations = append(res.Violations, engine.V("python-classes", "method-count", "method %s.%s listed %d times", k.Name, m.Name, cnt[m.Name]))
					continue
				}
				if decoNames(got[m.Name].Annotations) != wantDeco(m.Decorators) {
					res.Violations = append(res.Violations, engine.V("python-classes", "method-decorators", "method %s.%s decorators %q, written %q", k.Name, m.Name, decoNames(got[m.Name].Annotations), wantDeco(m.Decorators)))
				}
			}
			for n := range cnt {
				known := false
				for _, m := range k.Methods {
					if m.Name == n || "inner_"+m.Name == n {
						known = true
					}
				}
				if !known {
					res.Violations = append(res.Violations, engine.V("python-classes", "foreign-method", "class %s lists %s which it does not define", k.Name, n))
				}
			}
		}
		for n := range byName {
			known := false
			for _, k := range classes {
				known = known || k.Name == n
			}
			if !known {
				res.Violations = append(res.Violations, engine.V("python-classes", "undeclared", "class %s is not defined in the module", n))
			}
		}
		// module-level functions
		fc := map[string]int{}
		fm := map[string]core_domain.CodeMember{}
		for _, m := range cf.Members {
			fc[m.Name]++
			fm[m.Name] = m
			out = append(out, "func "+m.Name)
		}
		for _, f := range funcs {
			if fc[f.Name] != 1 {
				res.Violations = append(res.Violations, engine.V("python-functions", "entry-count", "function %s listed %d times", f.Name, fc[f.Name]))
				continue
			}
			if len(fm[f.Name].FunctionNodes) != 1 || decoNames(fm[f.Name].FunctionNodes[0].Annotations) != wantDeco(f.Decorators) {
				res.Violations = append(res.Violations, engine.V("python-functions", "decorators", "function %s decorators differ from %q", f.Name, wantDeco(f.Decorators)))
			}
		}
		for n := range fc {
			known := strings.HasPrefix(n, "inner_")
			for _, f := range funcs {
				known = known || f.Name == n
			}
			if !known {
				res.Violations = append(res.Violations, engine.V("python-functions", "undeclared-or-misplaced", "module-level function entry %s: not a module-level function of the source", n))
			}
		}
		// imports
		wantSrc := map[string]int{}
		for _, im := range imports {
			for _, s := range im.Sources {
				wantSrc[s]++
			}
			if im.From != "" {
				wantSrc["from:"+im.From+":"+strings.Join(im.Names, ",")]++
			}
		}
		gotSrc := map[string]int{}
		for _, im := range cf.Imports {
			out = append(out, "import "+im.Source+" "+strings.Join(im.UsageName, ","))
		}
		isFrom := map[string]bool{}
		for _, im := range imports {
			if im.From != "" {
				isFrom[im.From] = true
			}
		}
		for _, im := range cf.Imports {
			key := im.Source
			if isFrom[im.Source] && wantSrc[im.Source] == 0 {
				key = "from:" + im.Source + ":" + strings.Join(im.UsageName, ",")
			}
			gotSrc[key]++
		}
		for k, n := range wantSrc {
			if gotSrc[k] != n {
				kind := "missing-or-duplicated"
				if !strings.HasPrefix(k, "from:") && gotSrc[k] == 0 {
					kind = "module-not-listed-under-its-own-name"
				}
				res.Violations = append(res.Violations, engine.V("python-imports", kind, "import %q listed %d times, written %d times; listed: %v", k, gotSrc[k], n, out))
			}
		}
		sort.Strings(out)
		res.Outcome = strings.Join(out, "\n")
		return res
	}
}

// ---- Go -----------------------------------------------------------------------------------------------

type goField struct{ Name, TypeText, WantType string }
type goMethod struct {
	Recv    string
	Pointer bool
	Name    string
	Calls   []goCall
	Extra   []string // other statements
}
type goCall struct{ Stmt, Selector, Fn string }
type goType struct {
	Name    string
	Kind    string // struct | interface | empty-interface
	Fields  []goField
	IMethod []string
}

var c20GoFields = []goField{
	{"name", "string", "string"}, {"", "Base", "Base"}, {"next", "*Node", "Node"}, {"buf", "bytes.Buffer", "bytes.Buffer"}, {"items", "[]Item", "Item"}, {"fn", "func(int) string", "func"}, {"any", "interface{}", "interface{}"},
}
var c20GoCalls = []goCall{
	{"fmt.Println(\"x\")", "fmt", "Println"}, {"s.helper()", "s", "helper"}, {"defer s.Close()", "s", "Close"}, {"str.ToUpper(\"a\")", "str", "ToUpper"},
	{"once.Do(func() {\n\t\tfmt.Print(\"in literal\")\n\t})", "once", "Do+fmt.Print"},
	{"once.Do(func() {\n\t\tdefer fmt.Printf(\"deferred in literal\")\n\t})", "once", "Do+fmt.Printf"},
}

func c20GoGen(c *engine.C) engine.Case {
	nt := []int{1, 2, 3}[c.Choose(3, "types")]
	var types []goType
	var methods []goMethod
	for i := 0; i < nt; i++ {
		name := []string{"Server", "Shape", "Config"}[i]
		kind := []string{"struct", "interface", "empty-interface"}[(c.Choose(3, fmt.Sprintf("t%d-kind", i))+[]int{0, 1, 0}[i])%3]
		t := goType{Name: name, Kind: kind}
		switch kind {
		case "struct":
			nf := []int{1, 0, 2}[c.Choose(3, fmt.Sprintf("t%d-fields", i))]
			for j := 0; j < nf; j++ {
				f := c20GoFields[(c.Choose(len(c20GoFields), fmt.Sprintf("t%d-f%d", i, j))+j)%len(c20GoFields)]
				if f.Name != "" {
					f.Name = fmt.Sprintf("%s%d", f.Name, j)
				}
				t.Fields = append(t.Fields, f)
			}
			nm := []int{1, 0, 2}[c.Choose(3, fmt.Sprintf("t%d-methods", i))]
			for j := 0; j < nm; j++ {
				m := goMethod{Recv: name, Name: fmt.Sprintf("Do%d%d", i, j), Pointer: c.Bool(fmt.Sprintf("t%d-m%d-pointer-receiver", i, j))}
				nc := []int{1, 0, 2}[c.Choose(3, fmt.Sprintf("t%d-m%d-calls", i, j))]
				for k := 0; k < nc; k++ {
					m.Calls = append(m.Calls, c20GoCalls[(c.Choose(len(c20GoCalls), fmt.Sprintf("t%d-m%d-c%d", i, j, k))+k)%len(c20GoCalls)])
				}
				if c.Bool(fmt.Sprintf("t%d-m%d-assign-and-return", i, j)) {
					m.Extra = []string{"v := compute()", "_ = v"}
				}
				methods = append(methods, m)
			}
		case "interface":
			nm := []int{1, 2}[c.Choose(2, fmt.Sprintf("t%d-imethods", i))]
			for j := 0; j < nm; j++ {
				t.IMethod = append(t.IMethod, fmt.Sprintf("Area%d", j))
			}
		}
		types = append(types, t)
	}
	methodsFirst := c.Bool("methods-before-their-types")
	if methodsFirst {
		c.Tag("methods-before-types")
	}
	nfree := []int{1, 0, 2}[c.Choose(3, "free-functions")]
	importsKind := c.Choose(3, "imports")
	var sb strings.Builder
	sb.WriteString("package p\n\n")
	type wantImp struct{ Source, As string }
	var wantImports []wantImp
	switch importsKind {
	case 0:
		sb.WriteString("import (\n\t\"bytes\"\n\t\"fmt\"\n\tstr \"strings\"\n\t\"sync\"\n)\n\n")
		wantImports = []wantImp{{"bytes", ""}, {"fmt", ""}, {"strings", "str"}, {"sync", ""}}
	case 1:
		sb.WriteString("import \"fmt\"\nimport str \"strings\"\nimport \"bytes\"\nimport \"net/http\"\nimport \"sync\"\n\n")
		wantImports = []wantImp{{"fmt", ""}, {"strings", "str"}, {"bytes", ""}, {"net.http", ""}, {"sync", ""}}
	case 2:
		sb.WriteString("import (\n\t\"bytes\"\n\t\"fmt\"\n\tstr \"strings\"\n\t_ \"embed\"\n\t\"sync\"\n)\n\n")
		wantImports = []wantImp{{"bytes", ""}, {"fmt", ""}, {"strings", "str"}, {"embed", "_"}, {"sync", ""}}
	}
	writeMethods := func() {
		for _, m := range methods {
			r := "s " + m.Recv
			if m.Pointer {
				r = "s *" + m.Recv
			}
			fmt.Fprintf(&sb, "func (%s) %s(n int) {\n", r, m.Name)
			for _, cl := range m.Calls {
				sb.WriteString("\t" + cl.Stmt + "\n")
			}
			for _, e := range m.Extra {
				sb.WriteString("\t" + e + "\n")
			}
			sb.WriteString("}\n\n")
		}
	}
	grouped := c.Bool("types-in-one-parenthesised-group")
	if grouped {
		c.Tag("grouped-type-specs")
	}
	writeTypes := func() {
		// grouped: `type ( A struct {...}; B interface {...} )` - one declaration with several specs
		kw, ind, end := "type ", "", "\n"
		if grouped {
			sb.WriteString("type (\n")
			kw, ind, end = "\t", "\t", ""
		}
		for _, t := range types {
			switch t.Kind {
			case "struct":
				fmt.Fprintf(&sb, "%s%s struct {\n", kw, t.Name)
				for _, f := range t.Fields {
					if f.Name == "" {
						sb.WriteString(ind + "\t" + f.TypeText + "\n")
					} else {
						sb.WriteString(ind + "\t" + f.Name + " " + f.TypeText + "\n")
					}
				}
				sb.WriteString(ind + "}\n" + end)
			case "interface":
				fmt.Fprintf(&sb, "%s%s interface {\n", kw, t.Name)
				for _, m := range t.IMethod {
					sb.WriteString(ind + "\t" + m + "(scale int) int\n")
				}
				sb.WriteString(ind + "}\n" + end)
			default:
				fmt.Fprintf(&sb, "%s%s interface{}\n%s", kw, t.Name, end)
			}
		}
		if grouped {
			sb.WriteString(")\n\n")
		}
	}
	if methodsFirst {
		writeMethods()
		writeTypes()
	} else {
		writeTypes()
		writeMethods()
	}
	var free []string
	for i := 0; i < nfree; i++ {
		name := fmt.Sprintf("Free%d", i)
		free = append(free, name)
		fmt.Fprintf(&sb, "func %s(a string, b int) (string, error) {\n\tfmt.Println(a)\n\treturn a, nil\n}\n\n", name)
	}
	if c.Bool("free-function-returning-interface{}-after-a-parameter-of-the-last-declared-type") && len(types) > 0 {
		// an anonymous interface{} directly behind the name of the most recently declared type
		last := types[len(types)-1].Name
		free = append(free, "Top")
		fmt.Fprintf(&sb, "func Top(s *%s) interface{} {\n\treturn nil\n}\n\n", last)
		c.Tag("interface{}-result-after-type-name")
	}
	if c.Bool("bodyless-function-declaration") {
		sb.WriteString("func implementedElsewhere(a int) int\n\n")
		c.Tag("bodyless-function")
	}
	sb.WriteString("var once sync.Once\n\nfunc compute() int {\n\treturn 1\n}\n\ntype Base struct{}\ntype Node struct{}\ntype Item struct{}\n\nfunc (s Server) helper() {}\nfunc (s Server) Close()  {}\n")
	// helper declarations above are part of the file: account for them in the expectation
	src := sb.String()
	hasServer := false
	for _, t := range types {
		if t.Name == "Server" && t.Kind == "struct" {
			hasServer = true
		}
	}
	if !hasServer {
		// helper methods need their receiver type
		src = strings.Replace(src, "func (s Server) helper() {}\nfunc (s Server) Close()  {}\n", "", 1)
		for i := range methods {
			var keep []goCall
			for _, cl := range methods[i].Calls {
				if cl.Selector != "s" {
					keep = append(keep, cl)
				}
			}
			methods[i].Calls = keep
		}
		for _, stmt := range []string{"\ts.helper()\n", "\tdefer s.Close()\n"} {
			src = strings.ReplaceAll(src, stmt, "")
		}
	}
	return func() engine.Result {
		res := engine.Result{InputKey: src, Input: src, Nontrivial: true}
		app := &goapp.GoIdentApp{}
		cf := app.Analysis(src, "proj/p/file.go")
		var out []string
		by := map[string][]core_domain.CodeDataStruct{}
		for _, d := range cf.DataStructures {
			by[d.NodeName] = append(by[d.NodeName], d)
			var fs, ms []string
			for _, p := range d.InOutProperties {
				fs = append(fs, p.ParamName+":"+p.TypeValue)
			}
			for _, f := range d.Functions {
				var cs []string
				for _, cl := range f.FunctionCalls {
					cs = append(cs, cl.NodeName+"."+cl.FunctionName)
				}
				ms = append(ms, f.Name+"("+strings.Join(cs, ",")+")")
			}
			out = append(out, "type "+d.NodeName+"{"+strings.Join(fs, ",")+"}["+strings.Join(ms, ";")+"]")
		}
		for _, t := range types {
			if len(by[t.Name]) != 1 {
				res.Violations = append(res.Violations, engine.V("go-types", "entry-count", "type %s listed %d times (listed: %v)", t.Name, len(by[t.Name]), out))
				continue
			}
			d := by[t.Name][0]
			switch t.Kind {
			case "struct":
				if len(d.InOutProperties) != len(t.Fields) {
					res.Violations = append(res.Violations, engine.V("go-types", "field-count", "struct %s lists %d fields, declares %d", t.Name, len(d.InOutProperties), len(t.Fields)))
				} else {
					for i, f := range t.Fields {
						p := d.InOutProperties[i]
						if p.ParamName != f.Name || p.TypeValue != f.WantType {
							res.Violations = append(res.Violations, engine.V("go-types", "field", "struct %s field %d listed as %q %q, declared %q %q", t.Name, i, p.ParamName, p.TypeValue, f.Name, f.TypeText))
						}
					}
				}
			case "interface":
				var names []string
				for _, p := range d.InOutProperties {
					names = append(names, p.ParamName)
				}
				if strings.Join(names, ",") != strings.Join(t.IMethod, ",") {
					res.Violations = append(res.Violations, engine.V("go-types", "interface-methods", "interface %s method set %v, declared %v", t.Name, names, t.IMethod))
				}
			}
			// methods
			cnt := map[string]int{}
			fnBy := map[string]core_domain.CodeFunction{}
			for _, f := range d.Functions {
				cnt[f.Name]++
				fnBy[f.Name] = f
			}
			for _, m := range methods {
				if m.Recv != t.Name {
					continue
				}
				if cnt[m.Name] != 1 {
					res.Violations = append(res.Violations, engine.V("go-methods", "entry-count", "method %s.%s listed %d times", t.Name, m.Name, cnt[m.Name]))
					continue
				}
				f := fnBy[m.Name]
				if len(f.Parameters) != 1 || f.Parameters[0].ParamName != "n" {
					res.Violations = append(res.Violations, engine.V("go-methods", "parameters", "method %s.%s parameters %+v", t.Name, m.Name, f.Parameters))
				}
				// each call statement exactly once, in order
				var got []string
				for _, cl := range f.FunctionCalls {
					if cl.FunctionName == "" {
						continue // a plain local call (e.g. from an assignment): not a package-qualified or receiver call
					}
					got = append(got, cl.NodeName+"."+cl.FunctionName)
				}
				var want []string
				for _, cl := range m.Calls {
					if i := strings.Index(cl.Fn, "+"); i >= 0 {
						// a call statement whose argument is a function literal containing a call statement
						want = append(want, cl.Selector+"."+cl.Fn[:i], cl.Fn[i+1:])
						continue
					}
					want = append(want, cl.Selector+"."+cl.Fn)
				}
				// each call statement exactly once: compared as a multiset (the statement fixes no order)
				sort.Strings(got)
				sort.Strings(want)
				if strings.Join(got, ",") != strings.Join(want, ",") {
					res.Violations = append(res.Violations, engine.V("go-calls", "call-list", "method %s.%s records calls %v, statements written %v", t.Name, m.Name, got, want))
				}
			}
			for n := range cnt {
				known := n == "helper" || n == "Close"
				for _, m := range methods {
					known = known || (m.Recv == t.Name && m.Name == n)
				}
				if !known {
					res.Violations = append(res.Violations, engine.V("go-methods", "foreign-method", "type %s lists method %s which is not declared on it", t.Name, n))
				}
			}
		}
		// free functions
		fc := map[string]int{}
		for _, m := range cf.Members {
			if m.DataStructID == "default" {
				for _, f := range m.FunctionNodes {
					fc[f.Name]++
					if strings.HasPrefix(f.Name, "Free") {
						if len(f.Parameters) != 2 || f.Parameters[0].ParamName != "a" || f.Parameters[0].TypeValue != "string" || f.Parameters[1].ParamName != "b" || f.Parameters[1].TypeValue != "int" {
							res.Violations = append(res.Violations, engine.V("go-functions", "parameters", "function %s parameters %+v", f.Name, f.Parameters))
						}
					}
					out = append(out, "func "+f.Name)
				}
			}
		}
		for _, f := range append(free, "compute") {
			if fc[f] != 1 {
				res.Violations = append(res.Violations, engine.V("go-functions", "entry-count", "function %s listed %d times", f, fc[f]))
			}
		}
		// imports
		var gotImps []string
		for _, im := range cf.Imports {
			gotImps = append(gotImps, im.Source+"|"+im.AsName)
		}
		var wantImps []string
		for _, w := range wantImports {
			wantImps = append(wantImps, w.Source+"|"+w.As)
		}
		if strings.Join(gotImps, ",") != strings.Join(wantImps, ",") {
			res.Violations = append(res.Violations, engine.V("go-imports", "list", "imports listed %v, written %v", gotImps, wantImps))
		}
		sort.Strings(out)
		res.Outcome = strings.Join(out, "\n") + "\n" + strings.Join(gotImps, ",")
		return res
	}
}

func init() {
	engine.Register(&engine.Spec{
		ID:    "C20",
		Title: "Go and Python front-ends list every declaration under its own name",
		Rule: "X1: Python modules (0..3 imports of 8 forms x 0..2 classes with 0..3 decorators shapes and 0..2 decorated methods x 0..2 decorated functions x nested defs x order) and Go files (1..3 type declarations: structs with 0..2 fields of 6 kinds, interfaces with 1..2 methods, empty interfaces; 0..2 methods per struct on value/pointer receivers with 0..2 call statements of 4 kinds, defer, assignments; methods before or after their types; 0..2 free functions; 3 import layouts incl. aliases), deviation-bounded. " +
			"Every case is non-trivial. Distinct = distinct source text.",
		Assumptions: []string{
			"extra entries for nested defs are tolerated; positions, Type and Package of Go calls are not compared",
			"Go: a field's type is compared as the tool renders it (identifier, pointee, selector, element type, 'func')",
			"Python: `import a, b` must list both a and b as imports under their own names",
		},
		Sections: []engine.Section{
			{Name: "python", KQuick: 4, KThor: 5, Gen: c20PyGen},
			{Name: "go", KQuick: 4, KThor: 5, Gen: c20GoGen},
			{Name: "go-directory-through-CommonAnalysis", KQuick: -1, KThor: -1, Gen: c20DirGen},
			{Name: "python-directory-through-CommonAnalysis", KQuick: -1, KThor: -1, Gen: c20PyDirGen},
		},
	})
}
