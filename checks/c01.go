package checks

import (
	"fmt"
	"path/filepath"
	"sort"
	"strings"

	"github.com/modernizing/coca/pkg/application/analysis/javaapp"
	"github.com/modernizing/coca/pkg/domain/core_domain"
	"verif/engine"
	jg "verif/javagen"
)

type expFunc struct {
	Name, Ret string
	Params    [][2]string
}

func (f expFunc) key(withParams bool) string {
	s := f.Name + "|" + f.Ret
	if withParams {
		for _, p := range f.Params {
			s += "|" + p[0] + " " + p[1]
		}
	}
	return s
}

type expType struct {
	Pkg, Name, Kind, RelPath string
	Extends                  string // simple name as written, "" if none
	Anns                     []jg.Ann
	Funcs                    []expFunc
}

func expectedOf(c *jg.Class, relPath string) expType {
	e := expType{Pkg: c.Pkg, Name: c.Name, RelPath: relPath, Anns: c.Anns}
	if c.Kind == "interface" {
		e.Kind = "Interface"
	} else {
		e.Kind = "Class"
		e.Extends = c.Extends
	}
	for _, m := range c.Methods() {
		f := expFunc{Name: m.Name, Ret: m.Ret}
		for _, p := range m.Params {
			f.Params = append(f.Params, [2]string{p.Type, p.Name})
		}
		e.Funcs = append(e.Funcs, f)
	}
	return e
}

var layoutNames = []string{"default", "brace-own-line", "blank+comment", "tab-indent", "join-members", "ann-same-line",
	"nonascii-header", "no-final-newline", "mods-own-line", "join-stmts", "indent0", "block-comment-between",
	"leading-blank-lines", "leading-blanks-on-line-1", "tail-on-one-line-without-final-newline", "crlf-free-tabs-and-trailing-blanks"}

func pickLayout(c *engine.C) (jg.Layout, string) {
	i := c.Choose(len(layoutNames), "layout")
	l := jg.DefaultLayout()
	switch layoutNames[i] {
	case "brace-own-line":
		l.BraceOwnLine = true
	case "blank+comment":
		l.BlankBetween = 2
		l.CommentBetween = "// a member follows"
	case "tab-indent":
		l.Indent = "\t"
	case "join-members":
		l.JoinMembers = true
	case "ann-same-line":
		l.AnnSameLine = true
	case "no-final-newline":
		l.NoFinalNewline = true
	case "mods-own-line":
		l.ModsOwnLine = true
	case "join-stmts":
		l.JoinStmts = true
	case "leading-blank-lines":
		l.Leading = "\n\n"
	case "leading-blanks-on-line-1":
		l.Leading = "  \t"
	case "tail-on-one-line-without-final-newline":
		l.JoinMembers, l.CloseJoined, l.NoFinalNewline = true, true, true
	case "crlf-free-tabs-and-trailing-blanks":
		l.Indent = "\t"
		l.CommentBetween = "// trailing blanks follow   "
	case "indent0":
		l.Indent = ""
	case "block-comment-between":
		l.CommentBetween = "/* é: void fake() { } */"
		l.BlankBetween = 1
	}
	if i != 0 {
		c.Tag("layout=" + layoutNames[i])
	}
	return l, layoutNames[i]
}

func identName(base string, style int) string {
	switch style {
	case 1:
		return base[:1]
	case 2:
		return base + strings.Repeat("Xy", 20)
	}
	return base
}

var c01Locations = []string{"flat", "nested", "maven-main", "maven-test", "suffix-Test", "suffix-Tests", "gitignored", "testData", "non-java", "gitignored-file", "gitignored-glob", "gitignored-bare-dir", "beside-gitignored-dir", "maven-test-root", "maven-test-lookalike"}

// c01Unit generates one conventional compilation unit.
func c01Unit(c *engine.C, idx int, forceMain bool) (cls *jg.Class, relPath string, isMain bool, needGitignore string) {
	pfx := fmt.Sprintf("u%d-", idx)
	base := []string{"Alpha", "Beta", "Gamma"}[idx]
	loc := "flat"
	if !forceMain {
		loc = c01Locations[c.Choose(len(c01Locations), pfx+"loc")]
	} else {
		loc = c01Locations[c.Choose(3, pfx+"loc")]
	}
	nameStyle := c.Choose(3, pfx+"name-style")
	name := identName(base, nameStyle)
	pkgDepth := c.Choose(3, pfx+"pkg-depth")
	pkg := []string{"p", "p.q", "p.q.r"}[pkgDepth]
	cls = &jg.Class{Pkg: pkg, Name: name, Kind: "class", Mods: []string{"public"}}
	if c.Bool(pfx + "interface") {
		cls.Kind = "interface"
		c.Tag("interface")
	}
	nimp := c.Choose(3, pfx+"imports")
	for i := 0; i < nimp; i++ {
		cls.Imports = append(cls.Imports, []string{"java.util.List", "java.util.Map"}[i])
	}
	switch c.Choose(6, pfx+"class-ann") {
	case 4:
		// values with a percent sign: inside the text, and as its last character
		cls.Anns = []jg.Ann{{Name: "Component", Single: "\"/by-name/%s\""}}
	case 5:
		cls.Anns = []jg.Ann{{Name: "Table", Pairs: [][2]string{{"name", "\"done 100%\""}, {"schema", "\"%d items\""}}}}
	case 1:
		cls.Anns = []jg.Ann{{Name: "Service"}}
	case 2:
		cls.Anns = []jg.Ann{{Name: "Component", Single: "\"x\""}}
	case 3:
		cls.Anns = []jg.Ann{{Name: "Table", Pairs: [][2]string{{"name", "\"t\""}, {"schema", "\"s\""}}}, {Name: "Entity"}}
	}
	switch c.Choose(4, pfx+"extends") {
	case 3:
		// a supertype written with its qualified name whose simple name is the declaring type's own name
		if cls.Kind == "class" {
			cls.Extends = "ext.lib." + name
		} else {
			cls.Implements = append(cls.Implements, "ext.lib."+name)
		}
		c.Tag("qualified-supertype-named-like-the-type")
	case 1:
		cls.Imports = append(cls.Imports, "ext.lib.Base")
		if cls.Kind == "class" {
			cls.Extends = "Base"
		} else {
			cls.Implements = append(cls.Implements, "Base")
		}
	case 2:
		if cls.Kind == "class" {
			cls.Extends = "Sibling"
		} else {
			cls.Implements = append(cls.Implements, "Sibling")
		}
	}
	if cls.Kind == "class" {
		switch c.Choose(3, pfx+"implements") {
		case 1:
			cls.Imports = append(cls.Imports, "ext.lib.Iface")
			cls.Implements = []string{"Iface"}
		case 2:
			cls.Imports = append(cls.Imports, "ext.lib.Iface", "ext.lib.Other")
			cls.Implements = []string{"Iface", "Other"}
		}
	}
	nm := []int{2, 1, 3, 0}[c.Choose(4, pfx+"members")]
	iface := cls.Kind == "interface"
	for i := 0; i < nm; i++ {
		def := 0
		if i == 1 {
			def = 1
		}
		kinds := []string{"method", "field", "ctor0", "ctor2", "method2", "method3-generic-types", "generic-method", "annotated-method", "override", "overload-pair", "array-field", "generic-field"}
		// the default of member 1 is a field: rotate the menu
		ki := c.Choose(len(kinds), fmt.Sprintf("%sm%d-kind", pfx, i))
		kind := kinds[(ki+def)%len(kinds)]
		mname := identName(fmt.Sprintf("m%d", i), 0)
		if nameStyle == 2 {
			mname = mname + strings.Repeat("Zz", 20)
		}
		mk := func(m *jg.Method) {
			if iface {
				m.NoBody = true
				m.Mods = nil
				m.IsCtor = false
				if m.Ret == "" {
					m.Ret = "void"
				}
				if m.TypeParams != "" { // quantifier: non-generic interface methods
					m.TypeParams = ""
					m.Ret = "Object"
					for j := range m.Params {
						if m.Params[j].Type == "T" {
							m.Params[j].Type = "Object"
						}
					}
				}
			} else if m.Ret != "void" && m.Ret != "" {
				m.Body = []jg.Stmt{jg.St(jg.T("return null;"))}
				if m.Ret == "int" {
					m.Body = []jg.Stmt{jg.St(jg.T("return 0;"))}
				}
			} else {
				m.Body = []jg.Stmt{jg.St(jg.T("int v = 1;"))}
			}
			cls.Members = append(cls.Members, jg.Member{Method: m})
		}
		switch kind {
		case "method":
			mk(&jg.Method{Mods: []string{"public"}, Ret: "void", Name: mname})
		case "field":
			f := &jg.Field{Mods: []string{"private"}, Type: "int", Name: fmt.Sprintf("f%d", i)}
			if iface {
				f.Mods = nil
				f.Init = []jg.Frag{jg.T("1")}
			}
			cls.Members = append(cls.Members, jg.Member{Field: f})
		case "ctor0":
			if iface {
				mk(&jg.Method{Ret: "void", Name: mname})
			} else {
				mk(&jg.Method{Mods: []string{"public"}, Name: name, IsCtor: true})
			}
		case "ctor2":
			if iface {
				mk(&jg.Method{Ret: "int", Name: mname, Params: []jg.Param{{Type: "int", Name: "a"}, {Type: "String", Name: "b"}}})
			} else {
				mk(&jg.Method{Mods: []string{"public"}, Name: name, IsCtor: true, Params: []jg.Param{{Type: "int", Name: "a"}, {Type: "String", Name: "b"}}})
			}
		case "method2":
			mk(&jg.Method{Mods: []string{"public", "static"}, Ret: "String", Name: mname, Params: []jg.Param{{Type: "String", Name: "s"}, {Type: "long", Name: "n"}}})
		case "method3-generic-types":
			mk(&jg.Method{Mods: []string{"protected"}, Ret: "List<String>", Name: mname, Params: []jg.Param{{Type: "Map<String,Integer>", Name: "a"}, {Type: "int[]", Name: "b"}, {Type: "Sibling", Name: "c"}}})
		case "generic-method":
			mk(&jg.Method{Mods: []string{"public"}, TypeParams: "<T>", Ret: "T", Name: mname, Params: []jg.Param{{Type: "T", Name: "x"}}})
		case "annotated-method":
			mk(&jg.Method{Anns: []jg.Ann{{Name: "Deprecated"}}, Mods: []string{"public"}, Ret: "int", Name: mname})
		case "override":
			if iface {
				mk(&jg.Method{Ret: "String", Name: mname})
			} else {
				mk(&jg.Method{Anns: []jg.Ann{{Name: "Override"}}, Mods: []string{"public"}, Ret: "String", Name: "toString"})
			}
		case "overload-pair":
			c.Tag("overload")
			mk(&jg.Method{Mods: []string{"public"}, Ret: "void", Name: mname})
			mk(&jg.Method{Mods: []string{"public"}, Ret: "void", Name: mname, Params: []jg.Param{{Type: "int", Name: "k"}}})
		case "array-field":
			f := &jg.Field{Mods: []string{"private"}, Type: "String[]", Name: fmt.Sprintf("arr%d", i)}
			if iface {
				f.Mods = nil
				f.Init = []jg.Frag{jg.T("null")}
			}
			cls.Members = append(cls.Members, jg.Member{Field: f})
		case "generic-field":
			f := &jg.Field{Mods: []string{"private"}, Type: "List<String>", Name: fmt.Sprintf("lst%d", i)}
			if iface {
				f.Mods = nil
				f.Init = []jg.Frag{jg.T("null")}
			}
			cls.Members = append(cls.Members, jg.Member{Field: f})
		}
	}
	if c.Bool(pfx + "reverse-members") {
		for i, j := 0, len(cls.Members)-1; i < j; i, j = i+1, j-1 {
			cls.Members[i], cls.Members[j] = cls.Members[j], cls.Members[i]
		}
	}
	pkgPath := strings.ReplaceAll(pkg, ".", "/")
	file := name + ".java"
	switch loc {
	case "flat":
		relPath, isMain = file, true
	case "nested":
		relPath, isMain = filepath.Join("sub", "deep", file), true
	case "maven-main":
		relPath, isMain = filepath.Join("src/main/java", pkgPath, file), true
	case "maven-test":
		relPath = filepath.Join("src/test/java", pkgPath, file)
	case "maven-test-root":
		// a test-tree file lying directly in the source-set root (no package directory)
		relPath = filepath.Join("src/test/java", file)
	case "maven-test-lookalike":
		// a main file below a directory that merely resembles the Maven test tree
		relPath, isMain = filepath.Join("src/test/javax", pkgPath, file), true
	case "suffix-Test":
		relPath = name + "Test.java"
	case "suffix-Tests":
		relPath = filepath.Join("sub", name+"Tests.java")
	case "gitignored":
		relPath, needGitignore = filepath.Join("ignored", file), "ignored/"
	case "gitignored-file":
		// a pattern that names one regular file lying between other main files
		relPath, needGitignore = file, file
	case "gitignored-glob":
		relPath, needGitignore = name+".gen.java", "*.gen.java"
	case "gitignored-bare-dir":
		// a pattern without a trailing slash matches the directory itself (and so everything below it)
		relPath, needGitignore = filepath.Join("ignored", file), "ignored"
	case "beside-gitignored-dir":
		// a main file in a directory whose name merely starts with the name of an ignored directory that exists
		relPath, isMain, needGitignore = filepath.Join("ignoredx", file), true, "ignored|+dir"
	case "testData":
		relPath = filepath.Join("testData", file)
	case "non-java":
		relPath = name + ".java.txt"
	}
	if !isMain {
		c.Tag("loc=" + loc)
	}
	return
}

func compareModel(pass string, root string, nodes []core_domain.CodeDataStruct, exp []expType, identLenient bool) []engine.Violation {
	var vs []engine.Violation
	by := map[string][]core_domain.CodeDataStruct{}
	for _, n := range nodes {
		if n.NodeName == "" {
			continue
		}
		by[n.Package+"."+n.NodeName] = append(by[n.Package+"."+n.NodeName], n)
	}
	want := map[string]bool{}
	for _, e := range exp {
		k := e.Pkg + "." + e.Name
		want[k] = true
		got := by[k]
		if len(got) != 1 {
			vs = append(vs, engine.V(pass+"-types", fmt.Sprintf("entries=%d", min(len(got), 2)), "%s pass: declared type %s has %d entries, want exactly 1", pass, k, len(got)))
			continue
		}
		n := got[0]
		if n.Type != e.Kind {
			vs = append(vs, engine.V(pass+"-type-attrs", "kind", "%s pass: %s kind %q, want %q", pass, k, n.Type, e.Kind))
		}
		if !(identLenient) {
			if rel(root, n.FilePath) != e.RelPath {
				vs = append(vs, engine.V(pass+"-type-attrs", "path", "%s pass: %s path %q, want %q", pass, k, rel(root, n.FilePath), e.RelPath))
			}
		}
		if e.Extends == "" {
			if n.Extend != "" && e.Kind == "Class" {
				vs = append(vs, engine.V(pass+"-type-attrs", "superclass-invented", "%s pass: %s superclass %q, none declared", pass, k, n.Extend))
			}
		} else if n.Extend != e.Extends && !strings.HasSuffix(n.Extend, "."+e.Extends) {
			vs = append(vs, engine.V(pass+"-type-attrs", "superclass", "%s pass: %s superclass %q, declared %q", pass, k, n.Extend, e.Extends))
		}
		// annotations: names in order with their values
		if len(n.Annotations) != len(e.Anns) {
			vs = append(vs, engine.V(pass+"-type-attrs", "annotation-count", "%s pass: %s has %d annotations recorded, %d declared", pass, k, len(n.Annotations), len(e.Anns)))
		} else {
			for i, a := range e.Anns {
				g := n.Annotations[i]
				ok := g.Name == a.Name
				if a.Single != "" {
					ok = ok && len(g.KeyValues) == 1 && g.KeyValues[0].Value == a.Single
				} else {
					ok = ok && len(g.KeyValues) == len(a.Pairs)
					if ok {
						for j, p := range a.Pairs {
							ok = ok && g.KeyValues[j].Key == p[0] && g.KeyValues[j].Value == p[1]
						}
					}
				}
				if !ok {
					vs = append(vs, engine.V(pass+"-type-attrs", "annotation", "%s pass: %s annotation %d recorded as %+v, declared %s", pass, k, i, g, a.String()))
				}
			}
		}
		// functions: multiset of named entries
		withParams := !identLenient
		wantF := map[string]int{}
		for _, f := range e.Funcs {
			wantF[f.key(withParams)]++
		}
		gotF := map[string]int{}
		for _, f := range n.Functions {
			if f.Name == "" {
				continue
			}
			ef := expFunc{Name: f.Name, Ret: f.ReturnType}
			for _, p := range f.Parameters {
				ef.Params = append(ef.Params, [2]string{p.TypeType, p.TypeValue})
			}
			gotF[ef.key(withParams)]++
		}
		var keys []string
		for fk := range wantF {
			keys = append(keys, fk)
		}
		for fk := range gotF {
			if _, ok := wantF[fk]; !ok {
				keys = append(keys, fk)
			}
		}
		sort.Strings(keys)
		for _, fk := range keys {
			switch {
			case gotF[fk] < wantF[fk]:
				vs = append(vs, engine.V(pass+"-functions", "missing", "%s pass: %s: declared function %q has %d entries, want %d", pass, k, fk, gotF[fk], wantF[fk]))
			case gotF[fk] > wantF[fk] && wantF[fk] > 0:
				vs = append(vs, engine.V(pass+"-functions", "duplicated", "%s pass: %s: declared function %q has %d entries, want %d", pass, k, fk, gotF[fk], wantF[fk]))
			case gotF[fk] > wantF[fk]:
				vs = append(vs, engine.V(pass+"-functions", "undeclared", "%s pass: %s: function entry %q is not declared in the source", pass, k, fk))
			}
		}
	}
	var extra []string
	for k := range by {
		if !want[k] {
			extra = append(extra, k)
		}
	}
	sort.Strings(extra)
	for _, k := range extra {
		vs = append(vs, engine.V(pass+"-types", "undeclared-or-excluded", "%s pass: entry %s for a type that is not declared in a main file (path %s)", pass, k, rel(root, by[k][0].FilePath)))
	}
	return vs
}

func renderModel(root string, nodes []core_domain.CodeDataStruct) string {
	var lines []string
	for _, n := range nodes {
		var fs []string
		for _, f := range n.Functions {
			var ps []string
			for _, p := range f.Parameters {
				ps = append(ps, p.TypeType+" "+p.TypeValue)
			}
			fs = append(fs, f.ReturnType+" "+f.Name+"("+strings.Join(ps, ",")+")")
		}
		sort.Strings(fs)
		var as []string
		for _, a := range n.Annotations {
			as = append(as, fmt.Sprintf("%s%v", a.Name, a.KeyValues))
		}
		lines = append(lines, fmt.Sprintf("%s %s.%s path=%s ext=%s impl=%v ann=%v {%s}", n.Type, n.Package, n.NodeName, rel(root, n.FilePath), n.Extend, n.Implements, as, strings.Join(fs, "; ")))
	}
	sort.Strings(lines)
	return strings.Join(lines, "\n")
}

func c01Gen(c *engine.C) engine.Case { return c01GenMode(c, "api") }

// c01GenCLI: the same trees through `coca analysis -p .` (identify.json / deps.json) in a child process.
func c01GenCLI(c *engine.C) engine.Case { return c01GenMode(c, "cli") }

func c01GenMode(c *engine.C, mode string) engine.Case {
	layout, _ := pickLayout(c)
	nUnits := []int{1, 2, 3}[c.Choose(3, "units")]
	var files []FileSpec
	var exp []expType
	var gitignore []string
	nontrivial := false
	for i := 0; i < nUnits; i++ {
		cls, relPath, isMain, gi := c01Unit(c, i, i == 0)
		if strings.HasSuffix(gi, "|+dir") {
			gi = strings.TrimSuffix(gi, "|+dir")
			files = append(files, FileSpec{Path: "ignored/Hidden.java", Content: "package hidden;\n\nclass Hidden {\n}\n"})
		}
		if gi != "" {
			gitignore = append(gitignore, gi)
		}
		files = append(files, FileSpec{Path: relPath, Content: jg.Print(cls, layout)})
		if isMain {
			exp = append(exp, expectedOf(cls, relPath))
			if len(cls.Methods()) > 0 {
				nontrivial = true
			}
		}
	}
	if len(gitignore) > 0 {
		files = append(files, FileSpec{Path: ".gitignore", Content: strings.Join(gitignore, "\n") + "\n"})
	}
	if mode == "cli" {
		// a class that is a test only by where it lies, seen through a relative path argument (the walk then starts at "src/...")
		files = append(files, FileSpec{Path: "src/test/java/p/LocatedOnlyIT.java", Content: "package p;\n\npublic class LocatedOnlyIT {\n    public void probe() {\n    }\n}\n"})
	}
	viaPath := c.Bool("via-AnalysisPath-of-subdir-listing")
	return func() engine.Result {
		res := engine.Result{InputKey: filesKey(files), Input: filesInput(files), Nontrivial: nontrivial}
		if why := validateJava(files); why != "" {
			res.Skipped = why
			return res
		}
		root, cleanup := materialise(files)
		defer cleanup()
		_ = viaPath
		var idents, full []core_domain.CodeDataStruct
		if mode == "cli" {
			r := runCLI(root, "analysis", "-p", ".")
			if r.Exit != 0 {
				res.Outcome = "CLI-FAILED"
				res.Violations = append(res.Violations, engine.V("cli", "exit-status", "coca analysis exited %d: %s", r.Exit, trimTo(r.Stderr+r.Stdout, 600)))
				return res
			}
			if err := readReport(root, "identify.json", &idents); err != nil {
				res.Violations = append(res.Violations, engine.V("cli", "no-report", "identify.json: %v", err))
				return res
			}
			if err := readReport(root, "deps.json", &full); err != nil {
				res.Violations = append(res.Violations, engine.V("cli", "no-report", "deps.json: %v", err))
				return res
			}
		} else {
			identApp := javaapp.NewJavaIdentifierApp()
			idents = identApp.AnalysisPath(root)
			fullApp := javaapp.NewJavaFullApp()
			full = fullApp.AnalysisPath(root, idents)
		}
		res.Outcome = "IDENT\n" + renderModel(root, idents) + "\nFULL\n" + renderModel(root, full)
		res.Violations = append(res.Violations, compareModel("ident", root, idents, exp, false)...)
		res.Violations = append(res.Violations, compareModel("full", root, full, exp, false)...)
		return res
	}
}

func init() {
	engine.Register(&engine.Spec{
		ID:    "C01",
		Title: "Every declared Java type and method appears exactly once in the code model",
		Rule: "X1 over trees of 1..3 conventional compilation units (location x package depth x kind x annotations x extends/implements x 0..3 members of 12 kinds x member order x 12 layouts x identifier lengths), " +
			"deviation-bounded. Non-trivial = at least one main unit declares a method. Distinct = distinct file-tree content.",
		Assumptions: []string{
			"generated units are checked against coca's own Java grammar (0 syntax errors) before use",
			"functions are compared as a multiset (order inside a type is unspecified, C08); unnamed helper entries are ignored",
			"superclass is accepted as the simple name written or any qualified name ending in it",
		},
		Sections: []engine.Section{{Name: "trees", KQuick: 3, KThor: 4, Gen: c01Gen}, {Name: "trees-through-coca-analysis", KQuick: 1, KThor: 2, Gen: c01GenCLI}},
	})
}
