package checks

import (
	"fmt"
	"sort"
	"strings"

	"github.com/awalterschulze/gographviz"
	"github.com/modernizing/coca/pkg/domain/core_domain"
)

// GMethod is a method node of an abstract call model.
type GMethod struct {
	Pkg, Class, Name string
	Calls            []GCall
}

type GCall struct {
	Pkg, Class, Name string // Class == "" : call without a receiver type (skipped by the tool)
	Line, Col        int    // source position of the call site (0 = model without positions)
}

func (m GMethod) Full() string { return m.Pkg + "." + m.Class + "." + m.Name }
func (c GCall) Full() string {
	if c.Name == "" {
		return c.Pkg + "." + c.Class
	}
	return c.Pkg + "." + c.Class + "." + c.Name
}

// GModel is an abstract model: a list of methods (order = order in the code model).
type GModel struct {
	Methods []GMethod
	// FilePaths: "" = no file recorded (abstract model), "per-class" = one source file per class,
	// "shared" = every class of the model lies in one source file
	FilePaths string
}

// ToDeps renders the abstract model as coca's code model (classes in order of first appearance).
func (g GModel) ToDeps() []core_domain.CodeDataStruct {
	var order []string
	by := map[string]*core_domain.CodeDataStruct{}
	for _, m := range g.Methods {
		key := m.Pkg + "." + m.Class
		ds := by[key]
		if ds == nil {
			ds = &core_domain.CodeDataStruct{NodeName: m.Class, Package: m.Pkg, Type: "Class"}
			switch g.FilePaths {
			case "per-class":
				ds.FilePath = "src/" + strings.ReplaceAll(m.Pkg, ".", "/") + "/" + m.Class + ".java"
			case "shared":
				ds.FilePath = "src/Everything.java"
			}
			by[key] = ds
			order = append(order, key)
		}
		f := core_domain.CodeFunction{Name: m.Name}
		for _, c := range m.Calls {
			cc := core_domain.CodeCall{Package: c.Pkg, NodeName: c.Class, FunctionName: c.Name}
			if c.Line > 0 {
				cc.Position = core_domain.CodePosition{StartLine: c.Line, StartLinePosition: c.Col, StopLine: c.Line, StopLinePosition: c.Col + len(c.Name)}
			}
			f.FunctionCalls = append(f.FunctionCalls, cc)
		}
		ds.Functions = append(ds.Functions, f)
	}
	var r []core_domain.CodeDataStruct
	for _, k := range order {
		r = append(r, *by[k])
	}
	return r
}

func (g GModel) String() string {
	var sb strings.Builder
	for _, m := range g.Methods {
		sb.WriteString(m.Full() + " -> [")
		for i, c := range m.Calls {
			if i > 0 {
				sb.WriteString(", ")
			}
			if c.Class == "" {
				sb.WriteString("<noreceiver>." + c.Name)
			} else {
				sb.WriteString(c.Full())
			}
		}
		sb.WriteString("]\n")
	}
	return sb.String()
}

// Edge of a parsed DOT graph.
type Edge struct{ From, To string }

// ParseDotEdges is a strict reader for the DOT subset coca emits for call graphs:
// `digraph G {`, optional `rankdir = LR;`, lines `"a" -> "b";` with \" escapes, blank lines, `}`.
func ParseDotEdges(dot string) ([]Edge, error) {
	lines := strings.Split(dot, "\n")
	var edges []Edge
	state := 0
	for ln, l := range lines {
		t := strings.TrimSpace(l)
		switch {
		case t == "":
			continue
		case state == 0:
			if t != "digraph G {" {
				return nil, fmt.Errorf("line %d: expected graph header, got %q", ln+1, t)
			}
			state = 1
		case state == 1 && t == "}":
			state = 2
		case state == 1 && t == "rankdir = LR;":
		case state == 1:
			a, rest, err := readQuoted(t)
			if err != nil {
				return nil, fmt.Errorf("line %d: %v in %q", ln+1, err, t)
			}
			if !strings.HasPrefix(rest, " -> ") {
				return nil, fmt.Errorf("line %d: expected ' -> ' in %q", ln+1, t)
			}
			b, rest2, err := readQuoted(rest[4:])
			if err != nil {
				return nil, fmt.Errorf("line %d: %v in %q", ln+1, err, t)
			}
			if rest2 != ";" {
				return nil, fmt.Errorf("line %d: trailing text %q", ln+1, rest2)
			}
			edges = append(edges, Edge{a, b})
		default:
			return nil, fmt.Errorf("line %d: text after closing brace: %q", ln+1, t)
		}
	}
	if state != 2 {
		return nil, fmt.Errorf("graph not closed")
	}
	return edges, nil
}

// readQuoted reads one quoted DOT ID the way Graphviz lexes it: \" is a quote, \\ is a backslash pair (so a quote
// after it closes the string), everything else is literal. The value is returned with each pair read as one backslash
// (what a layout engine shows): the only reading under which a name with a backslash in front of a quote can be written
// down at all. Names are thus compared modulo doubling of backslashes; the generators use no name with two in a row.
func readQuoted(s string) (string, string, error) {
	if !strings.HasPrefix(s, "\"") {
		return "", "", fmt.Errorf("expected opening quote")
	}
	var sb strings.Builder
	for i := 1; i < len(s); i++ {
		if s[i] == '\\' && i+1 < len(s) && (s[i+1] == '"' || s[i+1] == '\\') {
			sb.WriteByte(s[i+1])
			i++
			continue
		}
		if s[i] == '"' {
			return sb.String(), s[i+1:], nil
		}
		sb.WriteByte(s[i])
	}
	return "", "", fmt.Errorf("unterminated quoted string")
}

// DotWellFormed uses gographviz (a dependency of coca itself) as an independent well-formedness oracle.
func DotWellFormed(dot string) error {
	_, err := gographviz.ParseString(dot)
	return err
}

func edgeSet(es []Edge) map[Edge]bool {
	m := map[Edge]bool{}
	for _, e := range es {
		m[e] = true
	}
	return m
}

func sortedEdges(m map[Edge]bool) []string {
	var r []string
	for e := range m {
		r = append(r, e.From+" -> "+e.To)
	}
	sort.Strings(r)
	return r
}
