package checks

import (
	"fmt"
	"path/filepath"
	"sort"
	"strings"

	"github.com/modernizing/coca/pkg/adapter/cocafile"
	"github.com/modernizing/coca/pkg/application/tbs"
	"github.com/modernizing/coca/pkg/domain/core_domain"
	"verif/engine"
	jg "verif/javagen"
)

// evidence alphabet
var c11Tokens = []string{"assertTrue", "assertEquals-ab", "assertEquals-aa", "println", "printf", "sleep", "helper-asserts", "helper-plain", "verify", "new", "plain-aa", "print", "thread-yield", "own-sleep", "err-println", "assert-on-creation", "sleep-aa", "printf-aa", "assertJson", "assertJSON"}

type c11Want struct {
	Type     string
	File     string
	Line     int // 0: any line
	Lo, Hi   int // method extent; findings other than IgnoreTest must lie inside (Hi == 0: unchecked)
	Required bool
	Why      string
	matched  bool
}

type c11Method struct {
	m      *jg.Method
	anns   []string
	tokens []string
	sites  map[int]*jg.Site // token index -> site (print/sleep)
}

func c11Body(tokens []string) ([]jg.Stmt, map[int]*jg.Site) {
	var body []jg.Stmt
	sites := map[int]*jg.Site{}
	for i, t := range tokens {
		switch t {
		case "assertTrue":
			body = append(body, jg.St(jg.T("assertTrue(flag);")))
		case "assertEquals-ab":
			body = append(body, jg.St(jg.T("assertEquals(a, b);")))
		case "assertEquals-aa":
			body = append(body, jg.St(jg.T("assertEquals(a, a);")))
		case "println", "printf", "print":
			s := &jg.Site{Kind: "call", Name: t}
			sites[i] = s
			body = append(body, jg.St(jg.T("System.out."), jg.S(s), jg.T("(\"x\");")))
		case "sleep":
			s := &jg.Site{Kind: "call", Name: "sleep"}
			sites[i] = s
			body = append(body, jg.St(jg.T("Thread."), jg.S(s), jg.T("(10);")))
		case "sleep-aa": // a sleep whose two arguments are textually identical: two findings for one call
			s := &jg.Site{Kind: "call", Name: "sleep"}
			sites[i] = s
			body = append(body, jg.St(jg.T("Thread."), jg.S(s), jg.T("(5, 5);")))
		case "printf-aa":
			s := &jg.Site{Kind: "call", Name: "printf"}
			sites[i] = s
			body = append(body, jg.St(jg.T("System.out."), jg.S(s), jg.T("(\"x\", \"x\");")))
		case "assertJson": // two own assertion helpers whose names differ in letter case only
			body = append(body, jg.St(jg.T("assertJson(a);")))
		case "assertJSON":
			body = append(body, jg.St(jg.T("assertJSON(a);")))
		case "helper-asserts":
			body = append(body, jg.St(jg.T("helperAsserts();")))
		case "helper-plain":
			body = append(body, jg.St(jg.T("helperPlain();")))
		case "verify":
			body = append(body, jg.St(jg.T("verify(mock);")))
		case "new":
			body = append(body, jg.St(jg.T("new Foo();")))
		case "assert-on-creation": // an assertion whose argument is a creation: the creation is the last thing recorded
			body = append(body, jg.St(jg.T("assertNotNull(new Foo());")))
		case "plain-aa":
			body = append(body, jg.St(jg.T("compute(a, a);")))
		case "thread-yield": // a call on Thread that is not sleep: plain call, no evidence
			body = append(body, jg.St(jg.T("Thread.yield();")))
		case "own-sleep": // a method named sleep on another receiver: plain call, no evidence
			body = append(body, jg.St(jg.T("sleep(5);")))
		case "err-println": // System.err is not System.out
			body = append(body, jg.St(jg.T("System.err.println(\"e\");")))
		}
	}
	return body, sites
}

func c11Class(name string, methods []*c11Method) *jg.Class {
	cls := &jg.Class{Pkg: "p", Name: name, Kind: "class", Mods: []string{"public"},
		Imports: []string{"org.junit.Test", "org.junit.Ignore", "org.junit.Before", "static org.junit.Assert.*", "static org.mockito.Mockito.*"}}
	cls.Members = append(cls.Members,
		jg.Member{Field: &jg.Field{Mods: []string{"private"}, Type: "boolean", Name: "flag"}},
		jg.Member{Field: &jg.Field{Mods: []string{"private"}, Type: "int", Name: "a"}},
		jg.Member{Field: &jg.Field{Mods: []string{"private"}, Type: "int", Name: "b"}},
		jg.Member{Field: &jg.Field{Mods: []string{"private"}, Type: "Object", Name: "mock"}})
	for _, cm := range methods {
		cls.Members = append(cls.Members, jg.Member{Method: cm.m})
	}
	cls.Members = append(cls.Members,
		jg.Member{Method: &jg.Method{Mods: []string{"private"}, Ret: "void", Name: "helperAsserts", Body: []jg.Stmt{jg.St(jg.T("assertNotNull(mock);"))}}},
		jg.Member{Method: &jg.Method{Mods: []string{"private"}, Ret: "void", Name: "assertJson", Params: []jg.Param{{Type: "int", Name: "x"}}, Body: []jg.Stmt{jg.St(jg.T("flag = x > 0;"))}}},
		jg.Member{Method: &jg.Method{Mods: []string{"private"}, Ret: "void", Name: "assertJSON", Params: []jg.Param{{Type: "int", Name: "x"}}, Body: []jg.Stmt{jg.St(jg.T("flag = x < 0;"))}}},
		jg.Member{Method: &jg.Method{Mods: []string{"private"}, Ret: "void", Name: "helperPlain", Body: []jg.Stmt{jg.St(jg.T("prepare();"))}}},
		jg.Member{Method: &jg.Method{Mods: []string{"private"}, Ret: "void", Name: "prepare", Body: []jg.Stmt{jg.St(jg.T("flag = true;"))}}},
		jg.Member{Method: &jg.Method{Mods: []string{"private"}, Ret: "void", Name: "sleep", Params: []jg.Param{{Type: "int", Name: "ms"}}, Body: []jg.Stmt{jg.St(jg.T("flag = ms > 0;"))}}},
		jg.Member{Method: &jg.Method{Mods: []string{"private"}, Ret: "void", Name: "compute", Params: []jg.Param{{Type: "int", Name: "x"}, {Type: "int", Name: "y"}}, Body: []jg.Stmt{jg.St(jg.T("flag = x == y;"))}}})
	return cls
}

func c11MakeMethod(name string, annKind string, tokens []string) *c11Method {
	cm := &c11Method{tokens: tokens}
	m := &jg.Method{Mods: []string{"public"}, Ret: "void", Name: name, Throws: "Exception"}
	switch annKind {
	case "Test":
		cm.anns = []string{"Test"}
	case "Ignore":
		cm.anns = []string{"Ignore"}
	case "Test+Ignore":
		cm.anns = []string{"Test", "Ignore"}
	case "Ignore+Test":
		cm.anns = []string{"Ignore", "Test"}
	case "Before":
		cm.anns = []string{"Before"}
	}
	for _, a := range cm.anns {
		m.Anns = append(m.Anns, jg.Ann{Name: a})
	}
	m.Body, cm.sites = c11Body(tokens)
	cm.m = m
	return cm
}

// reference detector written from the statement
func c11Expected(file string, isTestFile bool, methods []*c11Method) []*c11Want {
	var w []*c11Want
	if !isTestFile {
		return w
	}
	for _, cm := range methods {
		hasTest, hasIgnore := false, false
		for _, a := range cm.anns {
			hasTest = hasTest || a == "Test"
			hasIgnore = hasIgnore || a == "Ignore"
		}
		if !hasTest && !hasIgnore {
			continue
		}
		name := cm.m.Name
		first := len(w)
		defer func(first int, cm *c11Method) {
			for _, x := range w[first:] {
				if x.Hi == 0 {
					x.Lo, x.Hi = cm.m.DeclPos.Line, cm.m.CloseLine
				}
			}
		}(first, cm)
		if hasIgnore {
			w = append(w, &c11Want{Type: "IgnoreTest", File: file, Required: true, Why: name + " is annotated @Ignore"})
		}
		calls, creations, asserts := 0, 0, 0
		count := map[string]int{}
		helperAsserts := 0
		for i, t := range cm.tokens {
			switch t {
			case "new":
				creations++
				continue
			}
			calls++
			switch t {
			case "assertTrue":
				asserts++
				count["assertTrue"]++
			case "assertEquals-ab":
				asserts++
				count["assertEquals"]++
			case "assertEquals-aa":
				asserts++
				count["assertEquals"]++
				w = append(w, &c11Want{Type: "RedundantAssertionTest", File: file, Required: true, Why: name + ": assertEquals(a, a)"})
			case "plain-aa":
				w = append(w, &c11Want{Type: "RedundantAssertionTest", File: file, Required: true, Why: name + ": compute(a, a)"})
			case "println", "printf", "print":
				w = append(w, &c11Want{Type: "RedundantPrintTest", File: file, Line: cm.sites[i].Pos.Line, Required: true, Why: name + ": System.out." + t})
			case "sleep":
				w = append(w, &c11Want{Type: "SleepyTest", File: file, Line: cm.sites[i].Pos.Line, Required: true, Why: name + ": Thread.sleep"})
			case "sleep-aa":
				w = append(w, &c11Want{Type: "SleepyTest", File: file, Line: cm.sites[i].Pos.Line, Required: true, Why: name + ": Thread.sleep"},
					&c11Want{Type: "RedundantAssertionTest", File: file, Required: true, Why: name + ": Thread.sleep(5, 5)"})
			case "printf-aa":
				w = append(w, &c11Want{Type: "RedundantPrintTest", File: file, Line: cm.sites[i].Pos.Line, Required: true, Why: name + ": System.out.printf"},
					&c11Want{Type: "RedundantAssertionTest", File: file, Required: true, Why: name + ": System.out.printf(\"x\", \"x\")"})
			case "helper-asserts":
				asserts++
				helperAsserts++
			case "verify":
				asserts++
				count["verify"]++
			case "assert-on-creation":
				asserts++
				count["assertNotNull"]++
			case "assertJson", "assertJSON":
				asserts++
				count[t]++
			}
		}
		switch {
		case calls == 0 && creations == 0:
			// @Ignore-only methods: the statement's "per test method" covers them; the report may or may not list them
			w = append(w, &c11Want{Type: "EmptyTest", File: file, Required: hasTest, Why: name + " makes no call"})
		case calls == 0:
			// a body consisting solely of creations: "makes no call" is ambiguous
			w = append(w, &c11Want{Type: "EmptyTest", File: file, Why: "creations only"}, &c11Want{Type: "UnknownTest", File: file, Why: "creations only"})
		case asserts == 0:
			w = append(w, &c11Want{Type: "UnknownTest", File: file, Required: true, Why: name + " makes calls but no assertion"})
		}
		dup := false
		for _, n := range count {
			if n >= 5 {
				dup = true
			}
		}
		if dup {
			w = append(w, &c11Want{Type: "DuplicateAssertTest", File: file, Required: true, Why: name + " calls one assertion method at least 5 times"})
		} else if helperAsserts > 0 && helperAsserts+count["assertNotNull"] >= 5 {
			// the helper's assertion is assertNotNull: direct calls of it and calls through the helper add up
			w = append(w, &c11Want{Type: "DuplicateAssertTest", File: file, Why: "assertion reached 5 times through a helper"})
		}
	}
	return w
}

type c11Unit struct {
	path    string
	isTest  bool
	cls     *jg.Class
	methods []*c11Method
}

func c11Run(units []c11Unit, layout jg.Layout) engine.Result {
	var files []FileSpec
	for _, u := range units {
		files = append(files, FileSpec{Path: u.path, Content: jg.Print(u.cls, layout)})
	}
	res := engine.Result{InputKey: filesKey(files), Input: filesInput(files)}
	if why := validateJava(files); why != "" {
		res.Skipped = why
		return res
	}
	root, cleanup := materialise(files)
	defer cleanup()
	var want []*c11Want
	for _, u := range units {
		want = append(want, c11Expected(filepath.Join(root, u.path), u.isTest, u.methods)...)
	}
	for _, w := range want {
		if w.Required {
			res.Nontrivial = true
		}
	}
	testFiles := cocafile.GetJavaTestFiles(root)
	idents := identPass(testFiles)
	nodes := fullPass(idents, testFiles)
	identMap := core_domain.BuildIdentifierMap(idents)
	results := tbs.NewTbsApp().AnalysisPath(nodes, identMap)
	// the detector walks maps: repeat it and judge the first result that differs from the first run as well
	canonRun := func(rs []tbs.TestBadSmell) string {
		var l []string
		for _, r := range rs {
			l = append(l, fmt.Sprintf("%s %s:%d", r.Type, r.FileName, r.Line))
		}
		sort.Strings(l)
		return strings.Join(l, "\n")
	}
	for rep := 0; rep < 7; rep++ {
		again := tbs.NewTbsApp().AnalysisPath(nodes, identMap)
		if canonRun(again) != canonRun(results) {
			res.Violations = append(res.Violations, engine.V("findings", "differs-between-runs", "two runs of the detector on the same model disagree:\n%s\n--\n%s", canonRun(results), canonRun(again)))
			break
		}
	}
	var lines []string
	for _, r := range results {
		lines = append(lines, fmt.Sprintf("%s %s:%d", r.Type, rel(root, r.FileName), r.Line))
	}
	sort.Strings(lines)
	res.Outcome = strings.Join(lines, "\n")
	for _, r := range results {
		var hit *c11Want
		for _, w := range want {
			if w.matched || w.Type != r.Type || w.File != r.FileName {
				continue
			}
			if w.Line != 0 && w.Line != r.Line {
				continue
			}
			if w.Hi != 0 && w.Type != "IgnoreTest" && (r.Line < w.Lo || r.Line > w.Hi) {
				continue
			}
			hit = w
			break
		}
		if hit == nil {
			kind := "unwarranted-" + r.Type
			if r.Type == "EmptyTest" {
				// refine: was it reported for a test method whose body makes exactly one call?
				for _, u := range units {
					for _, cm := range u.methods {
						if filepath.Join(root, u.path) == r.FileName && cm.m.TypePos.Line == r.Line && len(cm.tokens) == 1 && !strings.HasPrefix(cm.tokens[0], "helper") {
							kind = "unwarranted-EmptyTest:method-with-exactly-one-call"
						}
					}
				}
			}
			res.Violations = append(res.Violations, engine.V("findings", kind, "reported %s at %s:%d is not evidenced in the test sources (all reported: %v)", r.Type, rel(root, r.FileName), r.Line, lines))
			continue
		}
		hit.matched = true
	}
	for _, w := range want {
		if w.Required && !w.matched {
			res.Violations = append(res.Violations, engine.V("findings", "missing-"+w.Type, "expected %s (%s) not reported (all reported: %v)", w.Type, w.Why, lines))
		}
	}
	return res
}

// full product over evidence sequences of the first test method
func c11GenSeq(c *engine.C) engine.Case { return c11GenSeqN(c, 4, 4) } // 20 tokens: length 5 (3.2 M cases) does not fit the thorough budget

// c11GenSeqLong: longer sequences, explored within a deviation bound instead of as a full product.
func c11GenSeqLong(c *engine.C) engine.Case { return c11GenSeqN(c, 7, 7) }

func c11GenSeqN(c *engine.C, maxQ, maxT int) engine.Case {
	maxLen := maxQ
	if !c.Quick() {
		maxLen = maxT
	}
	n := c.Choose(maxLen+1, "len")
	var tokens []string
	for i := 0; i < n; i++ {
		tokens = append(tokens, c11Tokens[c.Choose(len(c11Tokens), fmt.Sprintf("t%d", i))])
	}
	cm := c11MakeMethod("testIt", "Test", tokens)
	units := []c11Unit{{path: "FooTest.java", isTest: true, methods: []*c11Method{cm}}}
	units[0].cls = c11Class("FooTest", units[0].methods)
	return func() engine.Result { return c11Run(units, jg.DefaultLayout()) }
}

var c11AnnKinds = []string{"Test", "Ignore", "Test+Ignore", "Ignore+Test", "none", "Before"}
var c11Locs = []string{"suffix-Test", "suffix-Tests", "maven-test", "production-main", "production-flat", "maven-test-root", "maven-test-lookalike"}

func c11GenTree(c *engine.C) engine.Case {
	layout, _ := pickLayout(c)
	nUnits := []int{1, 2}[c.Choose(2, "units")]
	var units []c11Unit
	for u := 0; u < nUnits; u++ {
		pfx := fmt.Sprintf("u%d-", u)
		base := []string{"Foo", "Bar"}[u]
		loc := c11Locs[c.Choose(len(c11Locs), pfx+"loc")]
		unit := c11Unit{}
		name := base
		switch loc {
		case "suffix-Test":
			name = base + "Test"
			unit.path, unit.isTest = name+".java", true
		case "suffix-Tests":
			name = base + "Tests"
			unit.path, unit.isTest = filepath.Join("sub", name+".java"), true
		case "maven-test":
			name = base + "Spec"
			unit.path, unit.isTest = filepath.Join("src/test/java/p", name+".java"), true
		case "maven-test-root":
			// a test class lying directly in the test source root (no package directory), without a test-like name
			name = base + "Check"
			unit.path, unit.isTest = filepath.Join("src/test/java", name+".java"), true
		case "maven-test-lookalike":
			// production code below a directory that merely resembles the Maven test tree
			unit.path = filepath.Join("src/test/javax/p", name+".java")
			c.Tag("production-class-with-@Test")
		case "production-main":
			unit.path = filepath.Join("src/main/java/p", name+".java")
			c.Tag("production-class-with-@Test")
		case "production-flat":
			unit.path = name + ".java"
			c.Tag("production-class-with-@Test")
		}
		nm := []int{1, 2, 3}[c.Choose(3, pfx+"methods")]
		for mi := 0; mi < nm; mi++ {
			ak := c11AnnKinds[c.Choose(len(c11AnnKinds), fmt.Sprintf("%sm%d-ann", pfx, mi))]
			if ak != "Test" {
				c.Tag("ann=" + ak)
			}
			// body: up to 3 tokens chosen individually, default [assertTrue]
			nt := []int{1, 0, 2, 3}[c.Choose(4, fmt.Sprintf("%sm%d-len", pfx, mi))]
			var tokens []string
			for ti := 0; ti < nt; ti++ {
				tokens = append(tokens, c11Tokens[c.Choose(len(c11Tokens), fmt.Sprintf("%sm%d-t%d", pfx, mi, ti))])
			}
			// multiplicity of one assertion around the threshold
			rep := []int{0, 4, 5, 6}[c.Choose(4, fmt.Sprintf("%sm%d-repeat", pfx, mi))]
			if rep > 0 {
				which := []string{"assertTrue", "assertEquals-ab", "verify", "helper-asserts", "assertJson+assertJSON"}[c.Choose(5, fmt.Sprintf("%sm%d-repeat-what", pfx, mi))]
				for r := 0; r < rep; r++ {
					if which == "assertJson+assertJSON" {
						// the calls are split over two callees that differ in case only: neither alone reaches the count
						tokens = append(tokens, []string{"assertJson", "assertJSON"}[r%2])
						continue
					}
					tokens = append(tokens, which)
				}
			}
			// a second group of five like calls that are not assertions, next to the repeated assertion
			if rep > 0 {
				switch c.Choose(3, fmt.Sprintf("%sm%d-five-plain-calls", pfx, mi)) {
				case 1:
					for r := 0; r < 5; r++ {
						tokens = append(tokens, "println")
					}
				case 2:
					for r := 0; r < 5; r++ {
						tokens = append(tokens, "helper-plain")
					}
				}
			}
			unit.methods = append(unit.methods, c11MakeMethod(fmt.Sprintf("test%d", mi), ak, tokens))
		}
		unit.cls = c11Class(name, unit.methods)
		units = append(units, unit)
		if c.Bool(pfx + "left-over-copy-next-to-it") {
			// an editor / merge left-over of the same source next to it: not a .java file, hence not a test file
			c.Tag("left-over-copy")
			units = append(units, c11Unit{path: unit.path + ".orig", cls: unit.cls, methods: unit.methods})
		}
	}
	return func() engine.Result { return c11Run(units, layout) }
}

func init() {
	engine.Register(&engine.Spec{
		ID:    "C11",
		Title: "Test-smell findings are exactly those evidenced in the test sources",
		Rule: "X1: (a) full product of evidence sequences of length <=4 (both tiers), and all sequences of length <=7 within 2/3 deviations from the default token, over 20 evidence tokens (assertTrue, assertNotNull(new Foo()), Thread.sleep(5, 5), printf with identical arguments, assertEquals(a,b), assertEquals(a,a), println, printf, print, Thread.sleep, helper that asserts, helper that does not, verify, new, non-assert call with identical arguments) in one @Test method; " +
			"(b) deviation-bounded trees of 1..2 classes (location: *Test.java, *Tests.java, src/test/java, production) x 1..3 methods x annotation combination (@Test, @Ignore, both in either order, none, @Before) x bodies x assertion multiplicity 4/5/6 x 12 layouts. " +
			"Non-trivial = at least one finding is required. Distinct = distinct source trees.",
		Assumptions: []string{
			"findings compared as a multiset of (file, type); the line only where the statement fixes it (print and sleep: the call's line)",
			"bodies consisting solely of `new` expressions: EmptyTest/UnknownTest optional; an empty @Ignore-only method: EmptyTest optional; an assertion reached 5 times only through a helper: DuplicateAssertTest optional",
			"assertion = a call whose name starts with one of the tool's assertion prefixes; the alphabet's non-assertion calls avoid those prefixes",
		},
		Sections: []engine.Section{
			{Name: "evidence-sequences", KQuick: -1, KThor: -1, Gen: c11GenSeq},
			{Name: "evidence-sequences-up-to-7", KQuick: 2, KThor: 3, Gen: c11GenSeqLong},
			{Name: "trees", KQuick: 3, KThor: 4, Gen: c11GenTree},
			{Name: "through-coca-tbs", KQuick: 2, KThor: 3, Gen: cliTbsGen},
		},
	})
}
