package checks

import (
	"fmt"
	"sort"
	"strings"

	"github.com/modernizing/coca/pkg/application/analysis/javaapp"
	"github.com/modernizing/coca/pkg/application/api"
	"github.com/modernizing/coca/pkg/domain/api_domain"
	"github.com/modernizing/coca/pkg/domain/core_domain"
	"verif/engine"
	jg "verif/javagen"
)

type expApi struct {
	Verb, Uri, Body, Pkg, Class, Method string
	AnyVerb                             bool
}

func (e expApi) key() string {
	return fmt.Sprintf("%s %s body=%s %s.%s.%s", e.Verb, e.Uri, e.Body, e.Pkg, e.Class, e.Method)
}

var c12MethodKinds = []string{"GetMapping-path", "PostMapping-path", "PutMapping-path", "DeleteMapping-path", "RequestMapping-path",
	"RequestMapping-value-method", "GetMapping-bare", "PostMapping-value", "helper", "RequestMapping-method-value"}
var c12ParamKinds = []string{"none", "plain", "request-body", "pathvar+request-body", "request-body-first"}

func c12Class(c *engine.C, idx int) (*jg.Class, []expApi) {
	pfx := fmt.Sprintf("c%d-", idx)
	name := []string{"AlphaCtl", "BetaCtl", "GammaCtl"}[idx]
	cls := &jg.Class{Pkg: "web", Name: name, Kind: "class", Mods: []string{"public"}, Imports: []string{"org.springframework.web.bind.annotation.*"}}
	ctlAnn := engine.PickTag(c, pfx+"controller", "RestController", "Controller", "none")
	base := ""
	var mapAnn *jg.Ann
	switch engine.PickTag(c, pfx+"class-mapping", "absent", "single", "value=") {
	case "single":
		mapAnn = &jg.Ann{Name: "RequestMapping", Single: fmt.Sprintf("\"/b%d\"", idx)}
		base = fmt.Sprintf("/b%d", idx)
	case "value=":
		mapAnn = &jg.Ann{Name: "RequestMapping", Pairs: [][2]string{{"value", fmt.Sprintf("\"/b%d\"", idx)}}}
		base = fmt.Sprintf("/b%d", idx)
	}
	mappingFirst := mapAnn != nil && ctlAnn != "none" && c.Bool(pfx+"mapping-before-controller")
	if mappingFirst {
		c.Tag("mapping-before-controller")
		cls.Anns = append(cls.Anns, *mapAnn)
	}
	if ctlAnn != "none" {
		cls.Anns = append(cls.Anns, jg.Ann{Name: ctlAnn})
	}
	if mapAnn != nil && !mappingFirst {
		cls.Anns = append(cls.Anns, *mapAnn)
	}
	var exp []expApi
	nm := []int{1, 2, 3}[c.Choose(3, pfx+"methods")]
	overloads := c.Bool(pfx + "methods-are-overloads-of-one-name")
	if overloads {
		c.Tag("overloaded-handlers")
	}
	for i := 0; i < nm; i++ {
		kind := c12MethodKinds[c.Choose(len(c12MethodKinds), fmt.Sprintf("%sm%d-kind", pfx, i))]
		pk := c12ParamKinds[c.Choose(len(c12ParamKinds), fmt.Sprintf("%sm%d-params", pfx, i))]
		m := &jg.Method{Mods: []string{"public"}, Ret: "String", Name: fmt.Sprintf("h%d%d", idx, i), Body: []jg.Stmt{jg.St(jg.T("return \"v\";"))}}
		path := fmt.Sprintf("/p%d", i)
		if c.Bool(fmt.Sprintf("%sm%d-path-with-a-regex-variable", pfx, i)) {
			path = fmt.Sprintf("/p%d/{id:[0-9]+}", i) // characters special to other layers: + [ ] { } :
		}
		q := "\"" + path + "\""
		e := expApi{Pkg: "web", Class: name, Method: m.Name}
		isHandler := true
		switch kind {
		case "GetMapping-path":
			m.Anns = []jg.Ann{{Name: "GetMapping", Single: q}}
			e.Verb, e.Uri = "GET", base+path
		case "PostMapping-path":
			m.Anns = []jg.Ann{{Name: "PostMapping", Single: q}}
			e.Verb, e.Uri = "POST", base+path
		case "PutMapping-path":
			m.Anns = []jg.Ann{{Name: "PutMapping", Single: q}}
			e.Verb, e.Uri = "PUT", base+path
		case "DeleteMapping-path":
			m.Anns = []jg.Ann{{Name: "DeleteMapping", Single: q}}
			e.Verb, e.Uri = "DELETE", base+path
		case "RequestMapping-path":
			m.Anns = []jg.Ann{{Name: "RequestMapping", Single: q}}
			e.Uri, e.AnyVerb = base+path, true
		case "RequestMapping-value-method":
			m.Anns = []jg.Ann{{Name: "RequestMapping", Pairs: [][2]string{{"value", q}, {"method", "RequestMethod.PUT"}}}}
			e.Verb, e.Uri = "PUT", base+path
		case "RequestMapping-method-value":
			m.Anns = []jg.Ann{{Name: "RequestMapping", Pairs: [][2]string{{"method", "RequestMethod.DELETE"}, {"value", q}}}}
			e.Verb, e.Uri = "DELETE", base+path
		case "GetMapping-bare":
			m.Anns = []jg.Ann{{Name: "GetMapping"}}
			e.Verb, e.Uri = "GET", base
		case "PostMapping-value":
			m.Anns = []jg.Ann{{Name: "PostMapping", Pairs: [][2]string{{"value", q}}}}
			e.Verb, e.Uri = "POST", base+path
			c.Tag("verb-mapping-with-value=")
		case "helper":
			isHandler = false
			m.Mods = []string{"private"}
			c.Tag("helper")
		}
		switch pk {
		case "plain":
			m.Params = []jg.Param{{Type: "String", Name: "q"}}
		case "request-body":
			m.Params = []jg.Param{{Anns: []jg.Ann{{Name: "RequestBody"}}, Type: "Book", Name: "b"}}
			e.Body = "Book"
		case "pathvar+request-body":
			m.Params = []jg.Param{{Anns: []jg.Ann{{Name: "PathVariable"}}, Type: "Long", Name: "id"}, {Anns: []jg.Ann{{Name: "RequestBody"}}, Type: "Order", Name: "o"}}
			e.Body = "Order"
		case "request-body-first":
			m.Params = []jg.Param{{Anns: []jg.Ann{{Name: "RequestBody"}}, Type: "Book", Name: "b"}, {Type: "int", Name: "n"}}
			e.Body = "Book"
		}
		if overloads {
			// same name, distinct parameter lists: i extra int parameters at the end
			m.Name = fmt.Sprintf("h%d0", idx)
			e.Method = m.Name
			for k := 0; k < i; k++ {
				m.Params = append(m.Params, jg.Param{Type: "int", Name: fmt.Sprintf("k%d", k)})
			}
		}
		cls.Members = append(cls.Members, jg.Member{Method: m})
		if isHandler && ctlAnn != "none" {
			exp = append(exp, e)
		}
	}
	return cls, exp
}

func c12Gen(c *engine.C) engine.Case {
	layout, _ := pickLayout(c)
	n := []int{1, 2, 3}[c.Choose(3, "classes")]
	var classes []*jg.Class
	var exp []expApi
	for i := 0; i < n; i++ {
		cls, e := c12Class(c, i)
		classes = append(classes, cls)
		exp = append(exp, e...)
	}
	// directory order is lexical order of file names: the prefix decides who is scanned first
	order := c.Choose(2, "file-order")
	var files []FileSpec
	for i, cls := range classes {
		prefix := fmt.Sprintf("f%d_", i)
		if order == 1 {
			prefix = fmt.Sprintf("f%d_", len(classes)-1-i)
		}
		files = append(files, FileSpec{Path: "src/" + prefix + cls.Name + ".java", Content: jg.Print(cls, layout)})
	}
	// a non-controller type that carries a type-level mapping, scanned before / after the controllers: contributes
	// nothing and changes nothing
	switch engine.PickTag(c, "mapped-non-controller-type", "none", "interface-scanned-first", "annotation-type-scanned-first", "interface-scanned-last") {
	case "interface-scanned-first":
		files = append(files, FileSpec{Path: "src/a0_AccountApi.java", Content: "package web;\n\nimport org.springframework.web.bind.annotation.*;\n\n@RequestMapping(\"/accounts\")\npublic interface AccountApi {\n    @GetMapping(\"/{id}\")\n    String get(String id);\n}\n"})
	case "annotation-type-scanned-first":
		files = append(files, FileSpec{Path: "src/a0_Routes.java", Content: "package web;\n\nimport org.springframework.web.bind.annotation.*;\n\n@RequestMapping(\"/routes\")\npublic @interface Routes {\n    String value();\n}\n"})
	case "interface-scanned-last":
		files = append(files, FileSpec{Path: "src/z9_AccountApi.java", Content: "package web;\n\nimport org.springframework.web.bind.annotation.*;\n\n@RequestMapping(\"/accounts\")\npublic interface AccountApi {\n    @GetMapping(\"/{id}\")\n    String get(String id);\n}\n"})
	}
	prefixSel := c.Choose(3, "aggregate-prefix")
	return func() engine.Result { return c12Check(files, exp, prefixSel) }
}

func c12Check(files []FileSpec, exp []expApi, prefixSel int) engine.Result {
	res := engine.Result{InputKey: filesKey(files) + fmt.Sprint(prefixSel), Input: filesInput(files), Nontrivial: len(exp) > 0}
	if why := validateJava(files); why != "" {
		res.Skipped = why
		return res
	}
	root, cleanup := materialise(files)
	defer cleanup()
	identApp := javaapp.NewJavaIdentifierApp()
	idents := identApp.AnalysisPath(root)
	fullApp := javaapp.NewJavaFullApp()
	deps := fullApp.AnalysisPath(root, idents)
	identMap := core_domain.BuildIdentifierMap(idents)
	app := new(api.JavaApiApp)
	apis := app.AnalysisPath(root, deps, identMap, map[string]string{})

	want := map[string]int{}
	anyVerb := map[string]bool{}
	for _, e := range exp {
		if e.AnyVerb {
			anyVerb[fmt.Sprintf("%s body=%s %s.%s.%s", e.Uri, e.Body, e.Pkg, e.Class, e.Method)] = true
			continue
		}
		want[e.key()]++
	}
	got := map[string]int{}
	var lines []string
	for _, a := range apis {
		e := expApi{Verb: a.HttpMethod, Uri: a.Uri, Body: a.RequestBodyClass, Pkg: a.PackageName, Class: a.ClassName, Method: a.MethodName}
		lines = append(lines, e.key())
		av := fmt.Sprintf("%s body=%s %s.%s.%s", e.Uri, e.Body, e.Pkg, e.Class, e.Method)
		if anyVerb[av] {
			delete(anyVerb, av)
			continue
		}
		got[e.key()]++
	}
	sort.Strings(lines)
	res.Outcome = strings.Join(lines, "\n")
	for av := range anyVerb {
		res.Violations = append(res.Violations, engine.V("entries", "missing", "handler entry missing: <any verb> %s; reported: %v", av, lines))
	}
	var keys []string
	for k := range want {
		keys = append(keys, k)
	}
	for k := range got {
		if _, ok := want[k]; !ok {
			keys = append(keys, k)
		}
	}
	sort.Strings(keys)
	for _, k := range keys {
		switch {
		case got[k] < want[k]:
			// classify: is there an entry for the same handler with other attributes?
			kind := "missing"
			hk := k[strings.LastIndex(k, " ")+1:]
			for g := range got {
				if strings.HasSuffix(g, " "+hk) && want[g] == 0 {
					kind = "wrong-attributes"
					wf, gf := strings.Fields(k), strings.Fields(g)
					switch {
					case wf[0] != gf[0]:
						kind = "wrong-verb"
					case wf[1] != gf[1]:
						kind = "wrong-uri"
					case wf[2] != gf[2]:
						kind = "wrong-request-body"
					}
				}
			}
			res.Violations = append(res.Violations, engine.V("entries", kind, "expected API entry %q (x%d), reported x%d; all reported: %v", k, want[k], got[k], lines))
		case got[k] > want[k]:
			kind := "extra"
			hk := k[strings.LastIndex(k, " ")+1:]
			for w := range want {
				if strings.HasSuffix(w, " "+hk) {
					kind = ""
				}
			}
			if kind != "" {
				res.Violations = append(res.Violations, engine.V("entries", "not-a-handler", "API entry %q does not correspond to an annotated handler of a controller", k))
			}
		}
	}
	// aggregate option
	prefix := ""
	if prefixSel == 1 && len(exp) > 0 {
		prefix = exp[0].Uri
		if len(prefix) < 2 {
			prefix = "/"
		} else if i := strings.Index(prefix[1:], "/"); i >= 0 {
			prefix = prefix[:i+1]
		}
	} else if prefixSel == 2 {
		prefix = "/nothing-has-this"
	}
	filtered := api_domain.FilterApiByPrefix(prefix, apis)
	var wantF []string
	for _, a := range apis {
		if strings.HasPrefix(a.Uri, prefix) {
			wantF = append(wantF, a.Uri+"|"+a.MethodName)
		}
	}
	var gotF []string
	for _, a := range filtered {
		gotF = append(gotF, a.Uri+"|"+a.MethodName)
	}
	if strings.Join(wantF, ",") != strings.Join(gotF, ",") {
		res.Violations = append(res.Violations, engine.V("aggregate", "prefix-filter", "FilterApiByPrefix(%q) = %v, want %v", prefix, gotF, wantF))
	}
	return res
}

func init() {
	engine.Register(&engine.Spec{
		ID:    "C12",
		Title: "Extracted HTTP APIs are exactly the annotated Spring handler methods",
		Rule: "X1 over projects of 1..3 classes (controller annotation x class-level mapping form x annotation order x 1..3 methods of 10 mapping kinds incl. helpers x 5 parameter shapes) x file order x 12 layouts x aggregate prefix; deviation-bounded. " +
			"Non-trivial = at least one handler expected. Distinct = distinct source trees.",
		Assumptions: []string{
			"@RequestMapping without method= may be reported with any verb",
			"URI = class base path concatenated with the method path, literally",
			"each case from pristine state; cross-file history is C07 (but multi-class projects here also exercise file order)",
		},
		Sections: []engine.Section{{Name: "controllers", KQuick: 3, KThor: 4, Gen: c12Gen}, {Name: "through-coca-api", KQuick: 1, KThor: 2, Gen: cliApiGen}},
	})
}
