package checks

import (
	"encoding/json"
	"fmt"
	"os"
	"path/filepath"
	"sort"
	"strings"

	rename "github.com/modernizing/coca/pkg/application/refactor/rename"
	"github.com/modernizing/coca/pkg/domain/core_domain"
	"verif/engine"
	jg "verif/javagen"
)

var c05Prefix = []string{"nothing", "other-call", "string-with-old-name", "block-comment-nonascii", "nonascii-string", "two-sites"}

func c05Site(name string) *jg.Site { return &jg.Site{Kind: "call", Name: name} }

// c05CallStmt builds one statement containing a call of `recv.old()` preceded on its line by `prefix`.
func c05CallStmt(recv, old, prefix string, gap ...string) jg.Stmt {
	paren := strings.Join(gap, "") + "()"
	call := func() []jg.Frag {
		if recv == "" {
			return []jg.Frag{jg.S(c05Site(old)), jg.T(paren)}
		}
		return []jg.Frag{jg.T(recv + "."), jg.S(c05Site(old)), jg.T(paren)}
	}
	var fr []jg.Frag
	switch prefix {
	case "other-call":
		fr = append(fr, jg.T("prepare(); "))
	case "string-with-old-name":
		fr = append(fr, jg.T("String s1 = \""+old+"()\"; "))
	case "block-comment-nonascii":
		fr = append(fr, jg.T("/* é ü ✓ */ "))
	case "nonascii-string":
		fr = append(fr, jg.T("String s2 = \"日本語 ß\"; "))
	case "two-sites":
		fr = append(fr, call()...)
		fr = append(fr, jg.T("; "))
	}
	fr = append(fr, call()...)
	fr = append(fr, jg.T(";"))
	return jg.Stmt{Frags: fr}
}

func c05Gen(c *engine.C) engine.Case {
	layout, _ := pickLayout(c)
	oldName := []string{"process", "p", "processTheWholeOrderAndShipItNow"}[c.Choose(3, "old-name")]
	newName := []string{"handle", "processItem", "h", "handleTheWholeOrderAndShipItNowPlease", "proceed", "préparer", "handle$2"}[c.Choose(7, "new-name")]
	// text between a method name and its opening parenthesis, at declarations and at call sites
	gap := []string{"", " ", " /* first */ "}[c.Choose(3, "between-name-and-parenthesis")]
	if gap != "" {
		c.Tag("gap-before-parenthesis")
	}
	layout.BeforeParen = gap
	// a second line in the configuration: the caller's own helper (called right before a site by the
	// "other-call" prefix) is renamed too
	second := []string{"", "setUpEverything", "p2"}[c.Choose(3, "second-config-entry")]
	helperFirst := false
	if second != "" {
		c.Tag("two-config-entries")
		helperFirst = c.Bool("helper-entry-listed-first")
	}
	throughCLI := c.Bool("through-coca-refactor")
	if throughCLI {
		c.Tag("cli")
	}
	iface := c.Bool("declaration-in-interface")
	if iface {
		c.Tag("interface-declaration")
	}
	target := &jg.Class{Pkg: "app", Name: "Target", Kind: "class", Mods: []string{"public"}}
	decl := &jg.Method{Mods: []string{"public"}, Ret: "void", Name: oldName, Body: []jg.Stmt{jg.St(jg.T("int v = 1;"))}}
	if iface {
		target.Kind = "interface"
		decl.Mods, decl.NoBody, decl.Body = nil, true, nil
	}
	target.Members = append(target.Members, jg.Member{Method: decl})
	if !iface {
		target.Members = append(target.Members, jg.Member{Method: &jg.Method{Mods: []string{"private"}, Ret: "void", Name: "prepare", Body: []jg.Stmt{jg.St(jg.T("int w = 2;"))}}})
		switch engine.PickTag(c, "own-call", "none", "implicit", "this") {
		case "implicit":
			target.Members = append(target.Members, jg.Member{Method: &jg.Method{Mods: []string{"public"}, Ret: "void", Name: "again",
				Body: []jg.Stmt{c05CallStmt("", oldName, c05Prefix[c.Choose(len(c05Prefix), "own-prefix")], gap)}}})
		case "this":
			target.Members = append(target.Members, jg.Member{Method: &jg.Method{Mods: []string{"public"}, Ret: "void", Name: "again",
				Body: []jg.Stmt{c05CallStmt("this", oldName, c05Prefix[c.Choose(len(c05Prefix), "own-prefix")], gap)}}})
		}
		if c.Bool("overloaded-declaration") {
			target.Members = append(target.Members, jg.Member{Method: &jg.Method{Mods: []string{"public"}, Ret: "void", Name: oldName, Params: []jg.Param{{Type: "int", Name: "k"}}, Body: []jg.Stmt{jg.St(jg.T("int u = k;"))}}})
		}
	}
	caller := &jg.Class{Pkg: "app", Name: "Caller", Kind: "class", Mods: []string{"public"}}
	caller.Members = append(caller.Members, jg.Member{Field: &jg.Field{Mods: []string{"private"}, Type: "Target", Name: "target"}})
	nSites := []int{1, 0, 2, 3}[c.Choose(4, "call-sites")]
	m := &jg.Method{Mods: []string{"public"}, Ret: "void", Name: "run", Params: []jg.Param{{Type: "Target", Name: "pt"}}}
	for i := 0; i < nSites; i++ {
		recv := []string{"target", "pt", "lt"}[c.Choose(3, fmt.Sprintf("site%d-receiver", i))]
		if recv == "lt" {
			m.Body = append(m.Body, jg.St(jg.T(fmt.Sprintf("Target lt%d = null;", i))))
			recv = fmt.Sprintf("lt%d", i)
		}
		m.Body = append(m.Body, c05CallStmt(recv, oldName, c05Prefix[c.Choose(len(c05Prefix), fmt.Sprintf("site%d-prefix", i))], gap))
	}
	caller.Members = append(caller.Members, jg.Member{Method: m},
		jg.Member{Method: &jg.Method{Mods: []string{"private"}, Ret: "void", Name: "prepare", Body: []jg.Stmt{jg.St(jg.T("int z = 0;"))}}})
	// an unrelated class with a like-named method and a call to it: must stay untouched
	unrelated := &jg.Class{Pkg: "other", Name: "Unrelated", Kind: "class", Mods: []string{"public"}}
	unrelated.Members = append(unrelated.Members,
		jg.Member{Method: &jg.Method{Mods: []string{"public"}, Ret: "void", Name: oldName, Body: []jg.Stmt{jg.St(jg.T("int q = 3;"))}}},
		jg.Member{Method: &jg.Method{Mods: []string{"public"}, Ret: "void", Name: "use", Body: []jg.Stmt{c05CallStmt("", oldName, "nothing", gap)}}})
	classes := []*jg.Class{target, caller, unrelated}
	paths := []string{"app/Target.java", "app/Caller.java", "other/Unrelated.java"}
	var files []FileSpec
	for i, cls := range classes {
		files = append(files, FileSpec{Path: paths[i], Content: jg.Print(cls, layout)})
	}
	renames := []c05Rename{{"app", "Target", oldName, newName}}
	if second != "" {
		if helperFirst {
			renames = append([]c05Rename{{"app", "Caller", "prepare", second}}, renames...)
		} else {
			renames = append(renames, c05Rename{"app", "Caller", "prepare", second})
		}
	}
	return func() engine.Result { return c05Check(files, classes, renames, throughCLI) }
}

type c05Edit struct {
	off, n int
	new    string
}

// c05Rename is one line of the rename configuration: <Pkg>.<Class>.<Old> -> <Pkg>.<Class>.<New>
type c05Rename struct{ Pkg, Class, Old, New string }

func (r c05Rename) line() string {
	return r.Pkg + "." + r.Class + "." + r.Old + " -> " + r.Pkg + "." + r.Class + "." + r.New
}

func c05Check(files []FileSpec, classes []*jg.Class, renames []c05Rename, throughCLI bool) engine.Result {
	oldName, newName := renames[0].Old, renames[0].New
	for _, r := range renames {
		if r.Class == "Target" {
			oldName, newName = r.Old, r.New
		}
	}
	var confLines []string
	for _, r := range renames {
		confLines = append(confLines, r.line())
	}
	conf := strings.Join(confLines, "\n")
	res := engine.Result{InputKey: filesKey(files) + conf + fmt.Sprint(throughCLI), Nontrivial: true,
		Input: map[string]interface{}{"files": filesInput(files), "rename": confLines, "through_coca_refactor": throughCLI}}
	if why := validateJava(files); why != "" {
		res.Skipped = why
		return res
	}
	root, cleanup := materialise(files)
	defer cleanup()
	all := absFiles(root, files, nil)
	idents := identPass(all)
	deps := fullPass(idents, all)
	// expected edits: declarations named old in app.Target + every call the model attributes to app.Target.old
	edits := map[string][]c05Edit{}
	for i, cls := range classes {
		path := filepath.Join(root, files[i].Path)
		var node *core_domain.CodeDataStruct
		for k := range deps {
			if deps[k].FilePath == path && deps[k].NodeName == cls.Name {
				node = &deps[k]
			}
		}
		if node == nil {
			res.Skipped = "model has no entry for " + cls.Name
			return res
		}
		for _, m := range cls.Methods() {
			for _, r := range renames {
				if cls.Pkg == r.Pkg && cls.Name == r.Class && m.Name == r.Old {
					edits[path] = append(edits[path], c05Edit{m.NamePos.Offset, len(r.Old), r.New})
				}
			}
			var fn *core_domain.CodeFunction
			for k := range node.Functions {
				f := &node.Functions[k]
				if f.Name == m.Name && len(f.Parameters) == len(m.Params) && f.Position.StartLine >= m.DeclPos.Line && f.Position.StartLine <= m.NamePos.Line {
					fn = f
				}
			}
			if fn == nil || len(fn.FunctionCalls) != len(m.Sites) {
				if len(m.Sites) > 0 {
					res.Skipped = fmt.Sprintf("model call list of %s.%s does not line up with the written sites (C02's subject)", cls.Name, m.Name)
					return res
				}
				continue
			}
			for j, s := range m.Sites {
				cl := fn.FunctionCalls[j]
				for _, r := range renames {
					if cl.Package+"."+cl.NodeName == r.Pkg+"."+r.Class && cl.FunctionName == r.Old {
						edits[path] = append(edits[path], c05Edit{s.Pos.Offset, len(r.Old), r.New})
					}
				}
			}
		}
	}
	nEdits := 0
	expected := map[string]string{}
	for i := range files {
		path := filepath.Join(root, files[i].Path)
		content := files[i].Content
		es := edits[path]
		sort.Slice(es, func(a, b int) bool { return es[a].off > es[b].off })
		for _, e := range es {
			content = content[:e.off] + e.new + content[e.off+e.n:]
			nEdits++
		}
		expected[path] = content
	}
	if throughCLI {
		// what `coca refactor -R <config> -d <deps.json>` does with the same model and the same configuration
		b, err := json.Marshal(deps)
		if err != nil {
			panic(err)
		}
		if err := os.WriteFile(filepath.Join(root, "deps.json"), b, 0o644); err != nil {
			panic(err)
		}
		if err := os.WriteFile(filepath.Join(root, "rename.conf"), []byte(conf+"\n"), 0o644); err != nil {
			panic(err)
		}
		r := runCLI(root, "refactor", "-R", "rename.conf", "-d", "deps.json")
		if r.Exit != 0 {
			res.Violations = append(res.Violations, engine.V("cli", "exit-status", "coca refactor -R exited %d: %s", r.Exit, trimTo(r.Stderr+r.Stdout, 600)))
			return res
		}
	} else {
		app := rename.RenameMethodApp(deps)
		app.Refactoring(conf)
	}
	var out []string
	for i := range files {
		path := filepath.Join(root, files[i].Path)
		b, err := os.ReadFile(path)
		if err != nil {
			res.Violations = append(res.Violations, engine.V("files", "unreadable", "%s: %v", files[i].Path, err))
			continue
		}
		got := string(b)
		out = append(out, engine.Hash(got))
		if got == expected[path] {
			continue
		}
		// classify the damage
		gl, wl := strings.Split(got, "\n"), strings.Split(expected[path], "\n")
		kind := "bytes-differ"
		detail := ""
		if len(gl) != len(wl) {
			kind = "line-count-changed"
		} else {
			for k := range gl {
				if gl[k] != wl[k] {
					detail = fmt.Sprintf("line %d: got %q want %q (original %q)", k+1, gl[k], wl[k], strings.Split(files[i].Content, "\n")[k])
					orig := strings.Split(files[i].Content, "\n")[k]
					nonASCII := false
					for _, r := range orig {
						if r > 127 {
							nonASCII = true
						}
					}
					switch {
					case gl[k] == orig:
						kind = "site-not-renamed"
					case nonASCII:
						kind = "collateral-damage-on-line-with-non-ascii-text"
					case strings.Count(orig, oldName+"(") > 1 && len(oldName) != len(newName):
						kind = "collateral-damage-with-several-sites-on-one-line"
					case files[i].Path == "other/Unrelated.java":
						kind = "unrelated-class-modified"
					default:
						kind = "collateral-damage"
					}
					break
				}
			}
		}
		res.Violations = append(res.Violations, engine.V("bytes", kind, "%s after renaming %s -> %s: %s", files[i].Path, oldName, newName, detail))
	}
	res.Outcome = fmt.Sprintf("%d edits expected; %s", nEdits, strings.Join(out, ","))
	return res
}

func init() {
	engine.Register(&engine.Spec{
		ID:    "C05",
		Title: "Method rename rewrites only the renamed identifier tokens",
		Rule: "X1 over a 3-file project (app.Target with the declaration - class or interface, optional overload and own calls; app.Caller with 0..3 call sites via field/parameter/local; other.Unrelated with a like-named method that must stay) x what precedes the site on its line (nothing, another call, a string containing the old name, a non-ASCII block comment, a non-ASCII string, a second site) x old/new names of equal, shorter, longer, 1-character and 30+-character length x 12 layouts; deviation-bounded. " +
			"Every case is non-trivial (the declaration is always renamed). Distinct = (source tree, rename request).",
		Assumptions: []string{
			"which calls are renamed is read from the supplied model (attribution is C02's subject); where the tokens are is read from the printer",
			"a case whose model call list does not line up with the written sites is skipped (counted), never judged",
			"CRLF-free sources; constructors are not renamed",
		},
		Sections: []engine.Section{{Name: "projects", KQuick: 4, KThor: 5, Gen: c05Gen}},
	})
}
