package checks

import (
	"fmt"
	"sort"
	"strings"

	"github.com/modernizing/coca/pkg/application/call"
	"github.com/modernizing/coca/pkg/domain/api_domain"
	"verif/engine"
)

// ---- shared abstract graph generator (C03, C04, C18a) ---------------------------------------------

type graphOpts struct {
	N        int
	MaxMult  int  // edge multiplicity menu {0..MaxMult}
	Extras   bool // quote / unresolved / external / overload options
	DistMenu bool
	Overload bool // the last node always shares the full name of node 0 (a second overload)
	// defaults of the choice tree (the zero-deviation model): distribution and a cycle m0 -> m1 -> ... -> m0
	DefaultDist  int
	DefaultCycle bool
}

type genGraph struct {
	Model    GModel
	Names    []string // full names of the n nodes
	Overload bool
	Extern   string
}

func buildGraph(c *engine.C, o graphOpts) genGraph {
	n := o.N
	dist := 0
	if o.DistMenu {
		dist = (c.Choose(6, "dist") + o.DefaultDist) % 6
		if dist == 3 {
			c.Tag("default-package")
		}
		if dist == 4 {
			c.Tag("names-that-end-in-each-other")
		}
		if dist == 5 {
			c.Tag("method-named-like-a-package-segment")
		}
	}
	quote, unresolved, external, overload := 0, false, false, false
	if o.Extras {
		quote = c.Choose(6, "quote-in-name")
		unresolved = c.Bool("unresolved-callee")
		external = c.Bool("external-callee")
		overload = n >= 2 && c.Bool("overload")
	}
	if o.Overload {
		overload = true
	}
	var g genGraph
	ms := make([]GMethod, n)
	for i := 0; i < n; i++ {
		m := GMethod{Pkg: "p", Class: "A", Name: fmt.Sprintf("m%d", i)}
		switch dist {
		case 1:
			m.Class = fmt.Sprintf("C%d", i)
		case 2:
			if i%2 == 1 {
				m.Pkg = "q"
			}
		case 3:
			// sources without a package declaration: every type lives in the default package
			m.Pkg = ""
		case 4:
			// one class and method name in packages whose names end in each other (org.com.p, com.p, p, none):
			// every full name is a suffix of the ones before it
			m.Pkg, m.Name = []string{"com.p", "p", "", "org.com.p", "x.org.com.p"}[i%5], "m"
			if i == 3 || i == 4 {
				m.Class = "B" // keeps the names distinct for n > 3: B-names end in each other, not in the A-names
				m.Pkg = []string{"com.p", "p"}[i-3]
			}
		case 5:
			// every method is named like the last segment of its own package (com.m1.C1.m1): the class of a
			// method is its full name without the LAST segment, whatever the earlier segments are
			m.Pkg, m.Class = fmt.Sprintf("com.m%d", i), fmt.Sprintf("C%d", i)
		}
		if quote > 0 && i == 1%n {
			// a quote; an escaped quote as in the literal receiver "say \"hi\""; two escaped quotes in a row. No name holds
			// two backslashes in a row: DOT cannot tell a doubled backslash from two, and the reader takes a pair for one
			m.Name = []string{"", "m\"" + fmt.Sprint(i), "m\\\"" + fmt.Sprint(i), "m" + fmt.Sprint(i) + "\\\"\\\"z", "m\"名前\"" + fmt.Sprint(i), "mÜ" + fmt.Sprint(i)}[quote]
			c.Tag([]string{"", "quote", "escaped-quote", "two-escaped-quotes", "quote-and-non-ascii", "non-ascii"}[quote])
		}
		ms[i] = m
	}
	if overload {
		// node n-1 becomes a second entry with the full name of node 0
		ms[n-1].Pkg, ms[n-1].Class, ms[n-1].Name = ms[0].Pkg, ms[0].Class, ms[0].Name
		c.Tag("overload")
		g.Overload = true
	}
	for i := 0; i < n; i++ {
		for j := 0; j < n; j++ {
			mult := c.Choose(o.MaxMult+1, fmt.Sprintf("e%d%d", i, j))
			if o.DefaultCycle && j == (i+1)%n {
				mult = (mult + 1) % (o.MaxMult + 1)
			}
			if mult > 1 {
				c.Tag("parallel-edge")
			}
			if mult > 0 && i == j {
				c.Tag("self-loop")
			}
			for k := 0; k < mult; k++ {
				ms[i].Calls = append(ms[i].Calls, GCall{Pkg: ms[j].Pkg, Class: ms[j].Class, Name: ms[j].Name})
			}
		}
	}
	if unresolved {
		ms[0].Calls = append([]GCall{{Pkg: "", Class: "", Name: "u"}}, ms[0].Calls...)
		c.Tag("unresolved")
	}
	if external {
		ms[0].Calls = append(ms[0].Calls, GCall{Pkg: "x", Class: "Ext", Name: "e"})
		g.Extern = "x.Ext.e"
		c.Tag("external")
	}
	// call-site positions as a real analysis would record them: absent, one call per line, or every call of a
	// method on one line (different columns)
	if o.Extras {
		switch engine.PickTag(c, "call-positions", "none", "one-per-line", "all-on-one-line") {
		case "one-per-line":
			for i := range ms {
				for j := range ms[i].Calls {
					ms[i].Calls[j].Line, ms[i].Calls[j].Col = 10*(i+1)+j, 8
				}
			}
		case "all-on-one-line":
			for i := range ms {
				for j := range ms[i].Calls {
					ms[i].Calls[j].Line, ms[i].Calls[j].Col = 10*(i+1), 8+12*j
				}
			}
		}
	}
	g.Model = GModel{Methods: ms}
	for _, m := range ms {
		g.Names = append(g.Names, m.Full())
	}
	return g
}

// refCalls: reference call relation. union[a] = callees of all entries named a (with multiplicity, in
// order); entries[a] = callee list per entry. di substitutes an injected interface class by its
// registered implementation.
func refCalls(g GModel, di map[string]string) (union map[string][]string, entries map[string][][]string) {
	union = map[string][]string{}
	entries = map[string][][]string{}
	for _, m := range g.Methods {
		var cs []string
		for _, c := range m.Calls {
			if c.Class == "" {
				continue
			}
			cal := c.Full()
			if impl, ok := di[c.Pkg+"."+c.Class]; ok && c.Name != "" {
				cal = impl + "." + c.Name
			}
			cs = append(cs, cal)
		}
		union[m.Full()] = append(union[m.Full()], cs...)
		entries[m.Full()] = append(entries[m.Full()], cs)
	}
	return
}

func reach(E map[string][]string, root string) map[string]bool {
	seen := map[string]bool{root: true}
	q := []string{root}
	for len(q) > 0 {
		a := q[0]
		q = q[1:]
		for _, b := range E[a] {
			if !seen[b] {
				seen[b] = true
				q = append(q, b)
			}
		}
	}
	return seen
}

// treeInternal counts the internal nodes of the call tree unfolded from root (one child per call site),
// capped at limit+1.
func treeInternal(E map[string][]string, root string, limit int) int {
	count := 0
	var rec func(a string)
	rec = func(a string) {
		if count > limit || len(E[a]) == 0 {
			return
		}
		count++
		for _, b := range E[a] {
			if count > limit {
				return
			}
			rec(b)
		}
	}
	rec(root)
	return count
}

// ---- budget calibration: measured from the implementation, never hard-coded ------------------------

var c03Budget = -1

func calibrateBudget() int {
	if c03Budget >= 0 {
		return c03Budget
	}
	measure := func(g GModel, root string) int {
		api := api_domain.RestAPI{Uri: "/c", HttpMethod: "GET", PackageName: "p", ClassName: "A", MethodName: root}
		dot, _ := call.NewCallGraph().AnalysisByFiles([]api_domain.RestAPI{api}, g.ToDeps(), nil)
		es, err := ParseDotEdges(dot)
		if err != nil {
			return 0
		}
		src := map[string]bool{}
		for _, e := range es[1:] {
			src[e.From] = true
		}
		return len(src)
	}
	mk := func(name string, callees ...string) GMethod {
		m := GMethod{Pkg: "p", Class: "A", Name: name}
		for _, c := range callees {
			m.Calls = append(m.Calls, GCall{Pkg: "p", Class: "A", Name: c})
		}
		return m
	}
	// straight chain of 20
	var chain GModel
	for i := 0; i < 20; i++ {
		if i < 19 {
			chain.Methods = append(chain.Methods, mk(fmt.Sprintf("c%d", i), fmt.Sprintf("c%d", i+1)))
		} else {
			chain.Methods = append(chain.Methods, mk("c19"))
		}
	}
	b1 := measure(chain, "c0")
	// root with 20 single-callee children
	var star GModel
	var kids []string
	for i := 0; i < 20; i++ {
		kids = append(kids, fmt.Sprintf("k%d", i))
	}
	star.Methods = append(star.Methods, mk("r", kids...))
	for _, k := range kids {
		star.Methods = append(star.Methods, mk(k, "leaf"))
	}
	star.Methods = append(star.Methods, mk("leaf"))
	b2 := measure(star, "r")
	// complete binary tree of depth 5
	var tree GModel
	for i := 1; i < 32; i++ {
		if i < 16 {
			tree.Methods = append(tree.Methods, mk(fmt.Sprintf("t%d", i), fmt.Sprintf("t%d", 2*i), fmt.Sprintf("t%d", 2*i+1)))
		} else {
			tree.Methods = append(tree.Methods, mk(fmt.Sprintf("t%d", i)))
		}
	}
	b3 := measure(tree, "t1")
	// the budget is the number of expansions the implementation demonstrably performs: the largest of the
	// three measurements (they agree for a fixed expansion budget; a change that stops expanding some
	// shape of method must not shrink the budget it is judged against)
	b := b1
	if b2 > b {
		b = b2
	}
	if b3 > b {
		b = b3
	}
	c03Budget = b
	if engine.Reset != nil {
		engine.Reset()
	}
	return b
}

// ---- oracle for CallGraph.Analysis ------------------------------------------------------------------

func checkCallGraph(g genGraph, root string, lookup bool, afterApi ...bool) engine.Result {
	B := calibrateBudget()
	deps := g.Model.ToDeps()
	after := len(afterApi) > 0 && afterApi[0]
	if after && len(g.Model.Methods) > 0 {
		// the other entry point of the package ran before in this process (`coca api`, then `coca call`)
		m := g.Model.Methods[len(g.Model.Methods)-1]
		call.NewCallGraph().AnalysisByFiles([]api_domain.RestAPI{{Uri: "/pre", HttpMethod: "GET", PackageName: m.Pkg, ClassName: m.Class, MethodName: m.Name}}, deps, nil)
	}
	dot := call.NewCallGraph().Analysis(root, deps, lookup)
	res := engine.Result{
		InputKey: g.Model.String() + "|root=" + root + fmt.Sprint("|lookup=", lookup, "|after-api=", after),
		Input:    map[string]interface{}{"model": strings.Split(strings.TrimSpace(g.Model.String()), "\n"), "root": root, "lookup": lookup, "after_an_api_graph_in_the_same_process": after},
	}
	union, entries := refCalls(g.Model, nil)
	R := reach(union, root)
	res.Nontrivial = len(union[root]) > 0
	es, err := ParseDotEdges(dot)
	if err != nil {
		res.Outcome = "UNPARSABLE " + dot
		res.Violations = append(res.Violations, engine.V("dot-well-formed", "strict-reader", "call graph is not well-formed DOT: %v\n%s", err, dot))
		return res
	}
	if err := DotWellFormed(dot); err != nil {
		res.Violations = append(res.Violations, engine.V("dot-well-formed", "gographviz", "gographviz rejects the call graph: %v\n%s", err, dot))
	}
	got := edgeSet(es)
	res.Outcome = strings.Join(sortedEdges(got), "\n")
	// callers-of-root closure, for edges contributed by the lookup option
	inv := map[string][]string{}
	for a, bs := range union {
		for _, b := range bs {
			inv[b] = append(inv[b], a)
		}
	}
	RC := reach(inv, root)
	for e := range got {
		isCall := false
		for _, b := range union[e.From] {
			if b == e.To {
				isCall = true
			}
		}
		if !isCall {
			res.Violations = append(res.Violations, engine.V("soundness", "edge-not-a-recorded-call", "edge %q -> %q is not a call recorded in the model", e.From, e.To))
			continue
		}
		if !R[e.From] && !(lookup && RC[e.To]) {
			res.Violations = append(res.Violations, engine.V("soundness", "source-not-reachable", "edge %q -> %q: source not reachable from root %q", e.From, e.To, root))
		}
	}
	// every direct callee of the root (for an overloaded root name: of at least one of the entries)
	if ents := entries[root]; len(ents) > 0 {
		ok := false
		var missing string
		for _, cs := range ents {
			all := true
			for _, b := range cs {
				if !got[Edge{root, b}] {
					all = false
					missing = b
				}
			}
			if all {
				ok = true
			}
		}
		if !ok {
			res.Violations = append(res.Violations, engine.V("root-callees", "direct-callee-missing", "direct callee %q of root %q is not in the graph", missing, root))
		}
	}
	// exactness when the unfolded call tree fits the (measured) budget; skipped for duplicate full names
	if !g.Overload && B > 0 {
		if T := treeInternal(union, root, B); T <= B {
			want := map[Edge]bool{}
			for a := range R {
				for _, b := range union[a] {
					want[Edge{a, b}] = true
				}
			}
			for e := range want {
				if !got[e] {
					res.Violations = append(res.Violations, engine.V("exactness", "reachable-edge-missing", "call tree has %d internal nodes (budget %d) but reachable edge %q -> %q is missing", T, B, e.From, e.To))
					break
				}
			}
			if !lookup {
				for e := range got {
					if !want[e] {
						res.Violations = append(res.Violations, engine.V("exactness", "extra-edge", "edge %q -> %q not in the reachable call relation", e.From, e.To))
						break
					}
				}
			}
		}
	}
	return res
}

func c03GenCall(o graphOpts) func(c *engine.C) engine.Case {
	return func(c *engine.C) engine.Case {
		g := buildGraph(c, o)
		ri := c.Choose(o.N+1, "root")
		root := "p.A.absent"
		if ri > 0 {
			root = g.Names[ri-1]
		}
		lookup := c.Bool("lookup")
		afterApi := c.Bool("after-an-api-graph-in-the-same-process")
		return func() engine.Result { return checkCallGraph(g, root, lookup, afterApi) }
	}
}

// ---- oracle for AnalysisByFiles ----------------------------------------------------------------------

func c03GenApi(o graphOpts) func(c *engine.C) engine.Case {
	return func(c *engine.C) engine.Case {
		g := buildGraph(c, o)
		napi := c.Choose(3, "napi") // default: 1 API... menu below maps 0->1, 1->2, 2->0
		count := []int{1, 2, 0}[napi]
		var apis []api_domain.RestAPI
		for i := 0; i < count; i++ {
			ni := c.Choose(o.N, fmt.Sprintf("api%d-node", i))
			m := g.Model.Methods[ni]
			apis = append(apis, api_domain.RestAPI{Uri: fmt.Sprintf("/u%d", i), HttpMethod: []string{"GET", "POST"}[i%2], PackageName: m.Pkg, ClassName: m.Class, MethodName: m.Name})
		}
		var di map[string]string
		diKind := engine.Pick(c, "di", "none", "one-implementation", "registered-implementation-is-itself-a-key")
		if diKind != "none" {
			// the class of node 1 is an injected interface implemented by p.Impl, whose like-named method calls the last node
			t := g.Model.Methods[1%o.N]
			di = map[string]string{t.Pkg + "." + t.Class: "p.Impl"}
			last := g.Model.Methods[o.N-1]
			g.Model.Methods = append(g.Model.Methods, GMethod{Pkg: "p", Class: "Impl", Name: t.Name,
				Calls: []GCall{{Pkg: last.Pkg, Class: last.Class, Name: last.Name}}})
			if diKind == "registered-implementation-is-itself-a-key" {
				// p.Impl is registered for the interface, and p.Impl2 for p.Impl: a call is resolved once, not transitively
				di["p.Impl"] = "p.Impl2"
				g.Model.Methods = append(g.Model.Methods, GMethod{Pkg: "p", Class: "Impl2", Name: t.Name})
			}
			c.Tag("di")
		}
		return func() engine.Result { return checkApiGraph(g, apis, di) }
	}
}

func checkApiGraph(g genGraph, apis []api_domain.RestAPI, di map[string]string) engine.Result {
	deps := g.Model.ToDeps()
	cg := call.NewCallGraph()
	dot, sizes := cg.AnalysisByFiles(apis, deps, di)
	var apiDesc []string
	for _, a := range apis {
		apiDesc = append(apiDesc, a.HttpMethod+" "+a.Uri+" => "+a.BuildFullMethodPath())
	}
	res := engine.Result{
		InputKey:   g.Model.String() + "|apis=" + strings.Join(apiDesc, ";") + fmt.Sprint("|di=", di),
		Input:      map[string]interface{}{"model": strings.Split(strings.TrimSpace(g.Model.String()), "\n"), "apis": apiDesc, "di": di},
		Nontrivial: len(apis) > 0,
	}
	union, _ := refCalls(g.Model, di)
	// the statement's "digraph G { " header of the api graph differs from the call graph's; normalise
	norm := strings.Replace(dot, "digraph G { \n", "digraph G {\n", 1)
	es, err := ParseDotEdges(norm)
	if err != nil {
		res.Outcome = "UNPARSABLE " + dot
		res.Violations = append(res.Violations, engine.V("dot-well-formed", "strict-reader", "api call graph is not well-formed DOT: %v\n%s", err, dot))
		return res
	}
	if err := DotWellFormed(dot); err != nil {
		res.Violations = append(res.Violations, engine.V("dot-well-formed", "gographviz", "gographviz rejects the api call graph: %v\n%s", err, dot))
	}
	got := edgeSet(es)
	var szs []string
	for _, s := range sizes {
		szs = append(szs, fmt.Sprintf("%s %s %s %d", s.HTTPMethod, s.URI, s.Caller, s.Size))
	}
	res.Outcome = strings.Join(sortedEdges(got), "\n") + "\n" + strings.Join(szs, "\n")
	if len(sizes) != len(apis) {
		res.Violations = append(res.Violations, engine.V("api-size", "count", "%d size rows for %d apis", len(sizes), len(apis)))
		return res
	}
	R := map[string]bool{}
	entry := map[Edge]bool{}
	for _, a := range apis {
		for k := range reach(union, a.BuildFullMethodPath()) {
			R[k] = true
		}
		e := Edge{a.HttpMethod + " " + a.Uri, a.BuildFullMethodPath()}
		entry[e] = true
		if !got[e] {
			res.Violations = append(res.Violations, engine.V("api-entry", "missing", "entry edge %q -> %q missing", e.From, e.To))
		}
	}
	for e := range got {
		if entry[e] {
			continue
		}
		isCall := false
		for _, b := range union[e.From] {
			if b == e.To {
				isCall = true
			}
		}
		if !isCall {
			res.Violations = append(res.Violations, engine.V("soundness", "edge-not-a-recorded-call", "api graph edge %q -> %q is not a call recorded in the model (after DI substitution)", e.From, e.To))
		} else if !R[e.From] {
			res.Violations = append(res.Violations, engine.V("soundness", "source-not-reachable", "api graph edge %q -> %q: source not reachable from any api", e.From, e.To))
		}
	}
	// per API: the chain and the size equal those obtained when the API is analysed alone from a pristine
	// state; Size = edges of that chain + 1
	for i, a := range apis {
		if engine.Reset != nil {
			engine.Reset()
		}
		dot1, s1 := cg.AnalysisByFiles([]api_domain.RestAPI{a}, deps, di)
		es1, err := ParseDotEdges(strings.Replace(dot1, "digraph G { \n", "digraph G {\n", 1))
		if err != nil || len(s1) != 1 {
			continue
		}
		nEdges := len(es1) - 1
		if sizes[i].Size != nEdges+1 {
			res.Violations = append(res.Violations, engine.V("api-size", "size-not-edges-plus-one", "api %d (%s): reported size %d, chain has %d edges", i, a.BuildFullMethodPath(), sizes[i].Size, nEdges))
		}
		for _, e := range es1 {
			if !got[e] {
				res.Violations = append(res.Violations, engine.V("api-chain", "differs-from-single-run", "api %d (%s): edge %q -> %q present when analysed alone but missing from the list run", i, a.BuildFullMethodPath(), e.From, e.To))
				break
			}
		}
		if sizes[i].Caller != a.BuildFullMethodPath() || sizes[i].URI != a.Uri || sizes[i].HTTPMethod != a.HttpMethod {
			res.Violations = append(res.Violations, engine.V("api-size", "row-identity", "size row %d does not describe api %d", i, i))
		}
	}
	// exactness per API whenever its unfolded call tree (after DI substitution) fits the measured budget
	if B := calibrateBudget(); !g.Overload && B > 0 {
		for _, a := range apis {
			root := a.BuildFullMethodPath()
			if T := treeInternal(union, root, B); T <= B {
				for src := range reach(union, root) {
					for _, dst := range union[src] {
						if !got[Edge{src, dst}] {
							res.Violations = append(res.Violations, engine.V("exactness", "reachable-edge-missing", "api %s: call tree has %d internal nodes (budget %d) but reachable edge %q -> %q is missing (di=%v)", root, T, B, src, dst, di))
						}
					}
				}
			}
		}
	}
	// root callees for each API
	_, entries := refCalls(g.Model, di)
	for _, a := range apis {
		root := a.BuildFullMethodPath()
		if ents := entries[root]; len(ents) > 0 {
			ok := false
			missing := ""
			for _, cs := range ents {
				all := true
				for _, b := range cs {
					if !got[Edge{root, b}] {
						all, missing = false, b
					}
				}
				ok = ok || all
			}
			if !ok {
				res.Violations = append(res.Violations, engine.V("root-callees", "direct-callee-missing", "direct callee %q of api handler %q is not in the graph", missing, root))
			}
		}
	}
	sort.Slice(res.Violations, func(i, j int) bool { return res.Violations[i].ClassKey() < res.Violations[j].ClassKey() })
	return res
}

func init() {
	engine.Register(&engine.Spec{
		ID:    "C03",
		Title: "Call graph shows only real calls, all direct callees of the root, and terminates",
		Rule: "X1 over abstract call models: full products of adjacency matrices (n<=3 quick, n<=4 thorough) x class distribution x root x lookup; " +
			"multigraph product on 2 nodes with quote/unresolved/external/overload options; deviation-bounded sparse graphs on 5 nodes; " +
			"AnalysisByFiles with 0..2 APIs and DI maps. Non-trivial = the root (or an API handler) has at least one callee. Distinct = distinct (model, root, options).",
		Assumptions: []string{
			"expansion budget is measured from the implementation on three calibration shapes (chain, star, binary tree); exactness is demanded only when the unfolded call tree has at most max(measured) internal nodes (the three measurements agree on the unchanged tree)",
			"for an overloaded root name the direct callees of at least one of the like-named entries must be present (statement is silent on overloads)",
			"with lookup on, an edge may also lie on a caller chain ending at the root (C04's relation)",
			"each case starts from pristine package state (reset hook, validated against fresh processes); repetition in one process is C07",
		},
		Sections: []engine.Section{
			{Name: "call-full-n3", KQuick: -1, KThor: -1, Gen: c03GenCall(graphOpts{N: 3, MaxMult: 1, DistMenu: true})},
			{Name: "call-multi-n2", KQuick: -1, KThor: -1, Gen: c03GenCall(graphOpts{N: 2, MaxMult: 2, Extras: true, DistMenu: true})},
			{Name: "call-dev-n5", KQuick: 3, KThor: 4, Gen: c03GenCall(graphOpts{N: 5, MaxMult: 2, Extras: true, DistMenu: true})},
			{Name: "api-dev-n4", KQuick: 3, KThor: 4, Gen: c03GenApi(graphOpts{N: 4, MaxMult: 2, Extras: true, DistMenu: true})},
			{Name: "api-full-n3", KQuick: 0, KThor: -1, Gen: c03GenApi(graphOpts{N: 3, MaxMult: 1})},
			{Name: "call-full-n4", KQuick: 0, KThor: -1, Gen: c03GenCall(graphOpts{N: 4, MaxMult: 1})},
			{Name: "through-coca-call-rcall-count", KQuick: 1, KThor: 2, Gen: cliGraphGen},
			{Name: "through-coca-api", KQuick: 1, KThor: 2, Gen: cliApiGen},
		},
		Extra: func(tier string) map[string]interface{} {
			return map[string]interface{}{"measured_expansion_budget": calibrateBudget()}
		},
	})
}
