package checks

import (
	"bytes"
	"encoding/json"
	"fmt"
	cocacmd "github.com/modernizing/coca/cmd"
	"os"
	"path/filepath"
	"sort"
	"strings"
	"time"

	"github.com/boyter/scc/processor"
	"github.com/modernizing/coca/pkg/adapter/cocafile"
	"github.com/modernizing/coca/pkg/application/analysis/goapp"
	"github.com/modernizing/coca/pkg/application/api"
	"github.com/modernizing/coca/pkg/application/arch"
	"github.com/modernizing/coca/pkg/application/arch/tequila"
	"github.com/modernizing/coca/pkg/application/bs"
	"github.com/modernizing/coca/pkg/application/call"
	"github.com/modernizing/coca/pkg/application/concept"
	"github.com/modernizing/coca/pkg/application/count"
	"github.com/modernizing/coca/pkg/application/evaluate"
	gitapp "github.com/modernizing/coca/pkg/application/git"
	"github.com/modernizing/coca/pkg/application/rcall"
	"github.com/modernizing/coca/pkg/application/tbs"
	"github.com/modernizing/coca/pkg/application/visual"
	"github.com/modernizing/coca/pkg/domain/bs_domain"
	"github.com/modernizing/coca/pkg/domain/cloc"
	"github.com/modernizing/coca/pkg/domain/core_domain"
	"github.com/modernizing/coca/pkg/infrastructure/string_helper"
	"verif/engine"
)

// X3: every dynamic `range` over a map in coca's packages is a scheduling point (the build for this check
// routes them through verifrt.Keys); a schedule fixes the order of every such range.

type c08Obs struct {
	Canon string   // canonical observation: collections sorted, functions inside a type sorted
	Order []string // promised orders found broken in this run
}

// SchedHooks is installed by the verif-tagged build of cmd/mc.
var SchedSet func(choose func(alts int, site string) int)
var SchedEvents func(reset bool) []SchedEvent

type SchedEvent struct {
	Site string
	Keys int
	Alts int
}

var c08Files = []FileSpec{
	{Path: "proj/src/main/java/shop/OrderService.java", Content: `package shop;

import shop.repo.OrderRepo;
import java.util.List;

public class OrderService {
    private OrderRepo repo;
    private PriceUtil prices;

    public Order find(long id) {
        return repo.load(id);
    }

    public Order find(String code) {
        Order o = repo.byCode(code);
        prices.total(o);
        return o;
    }

    public void save(Order order, int a, int b, int c, int d, int e) {
        repo.store(order);
        repo.store(order);
        audit();
    }

    private void audit() {
        prices.total(null);
    }

    public static Object nothing() {
        return null;
    }
}
`},
	{Path: "proj/src/main/java/shop/repo/OrderRepo.java", Content: `package shop.repo;

import shop.Order;

public class OrderRepo {
    public Order load(long id) {
        return null;
    }

    public Order byCode(String code) {
        if (code == null) {
            return null;
        }
        return new Order();
    }

    public void store(Order o) {
    }
}
`},
	{Path: "proj/src/main/java/shop/Order.java", Content: `package shop;

public class Order {
    private int total;

    public int getTotal() {
        return total;
    }

    public void setTotal(int total) {
        this.total = total;
    }
}
`},
	{Path: "proj/src/main/java/shop/Ids.java", Content: `package shop;

public class Ids {
    private Ids other;

    public int getId() {
        return 1;
    }

    public int getID() {
        return 2;
    }

    public int both() {
        return other.getId() + other.getID() + other.getId() + other.getID();
    }
}
`},
	{Path: "proj/src/main/java/shop/PriceUtil.java", Content: `package shop;

public class PriceUtil {
    public int total(Order o) {
        return o.getTotal();
    }

    public int total(Order o, int discount, int a, int b, int c, int d) {
        return total(o) - discount;
    }
}
`},
	{Path: "proj/src/main/java/shop/web/OrderController.java", Content: `package shop.web;

import shop.OrderService;
import org.springframework.web.bind.annotation.*;

@RestController
@RequestMapping("/orders")
public class OrderController {
    private OrderService service;

    @GetMapping("/one")
    public String one() {
        service.find(1L);
        return "x";
    }

    @PostMapping("/save")
    public String save(@RequestBody Order order) {
        service.save(order, 1, 2, 3, 4, 5);
        return "y";
    }
}
`},
	{Path: "proj/src/test/java/shop/OrderServiceTest.java", Content: `package shop;

import org.junit.Test;
import static org.junit.Assert.*;

public class OrderServiceTest {
    @Test
    public void findsById() {
        helper(1);
        System.out.println("x");
    }

    @Test
    public void findsByCode() {
        helper("c");
        assertTrue(true);
        assertTrue(true);
    }

    @Test
    public void chatty() {
        assertTrue(true);
        System.out.println("1");
        assertTrue(true);
        System.out.println("2");
        assertTrue(true);
        System.out.println("3");
        assertTrue(true);
        System.out.println("4");
        assertTrue(true);
        System.out.println("5");
    }

    private void helper(int id) {
        assertTrue(id > 0);
    }

    private void helper(String code) {
        prepare();
    }

    private void prepare() {
    }
}
`},
}

const c08GitLog = `[a1b2c3d] Ann 2020-01-01 feat: add files
3	0	d/a.txt
3	0	d/b.txt
3	0	r.txt
 create mode 100644 d/a.txt
 create mode 100644 d/b.txt
 create mode 100644 r.txt

[b2c3d4e] Bob 2020-01-02 fix(core): touch two
2	1	d/a.txt
1	1	r.txt

[c3d4e5f] Ann 2020-01-03 feat: move and recreate
0	0	d/{a.txt => na.txt}
4	0	d/a.txt
 rename d/{a.txt => na.txt} (100%)
 create mode 100644 d/a.txt

[d4e5f6a] Bob 2020-01-04 misc
0	3	d/b.txt
1	0	d/na.txt
 delete mode 100644 d/b.txt

[e5f6a7b] Cy 2020-01-04 feat: third author
1	0	r.txt
5	0	z.txt
 create mode 100644 z.txt

[f6a7b8c] Ann 2020-01-05 fix: move a file the log has not seen before
0	0	legacy/{old.txt => new.txt}
2	0	legacy/old.txt
0	0	vendor/lib.txt => third_party/lib.txt
1	0	vendor/lib.txt
 rename legacy/{old.txt => new.txt} (100%)
 create mode 100644 legacy/old.txt
 rename vendor/lib.txt => third_party/lib.txt (100%)
 create mode 100644 vendor/lib.txt

[a7b8c9d] Cy 2020-01-06 docs: files with a blank in their path
2	0	my docs/a b.txt
1	0	my docs/keep me.txt
 create mode 100644 my docs/a b.txt
 create mode 100644 my docs/keep me.txt

[a9b0c1d] Ann 2020-01-07 docs: two names that differ in letter case only
2	0	docs/README.md
2	0	docs/readme.md
 create mode 100644 docs/README.md
 create mode 100644 docs/readme.md

[b8c9d0e] Bob 2020-01-07 docs: move them and write the old names again
0	0	my docs/{a b.txt => c d.txt}
3	0	my docs/a b.txt
0	0	my docs/keep me.txt => attic/keep me.txt
1	0	my docs/keep me.txt
 rename my docs/{a b.txt => c d.txt} (100%)
 create mode 100644 my docs/a b.txt
 rename my docs/keep me.txt => attic/keep me.txt (100%)
 create mode 100644 my docs/keep me.txt

`

const c08GoSrc = `package p

import (
	"fmt"
	str "strings"
)

type Zeta struct {
	name string
}

type Alpha struct {
	next *Zeta
}

type Mid interface {
	Area(scale int) int
}

type Store interface {
	Load(id int) int
}

type store struct {
	items []string
}

func (s store) Load(id int) int {
	fmt.Println(id)
	return id
}

func (z Zeta) Hello() {
	fmt.Println("x")
}

func (a *Alpha) Up() {
	str.ToUpper("a")
}

func Free(a string) string {
	return a
}
`

var c08Scenarios = []string{"java-model", "graphs", "arch", "smells", "tests-and-api", "counts-and-evaluation", "git", "cloc", "go-frontend", "cli-commands"}

type c08Env struct {
	dir    string
	idents []core_domain.CodeDataStruct
	deps   []core_domain.CodeDataStruct
}

func c08Setup(dir string) {
	for _, f := range c08Files {
		p := filepath.Join(dir, f.Path)
		if b, err := os.ReadFile(p); err == nil && string(b) == f.Content {
			continue
		}
		os.MkdirAll(filepath.Dir(p), 0o755)
		tmp := fmt.Sprintf("%s.%d.tmp", p, os.Getpid())
		os.WriteFile(tmp, []byte(f.Content), 0o644)
		os.Rename(tmp, p)
	}
}

func relJSON(dir string, v interface{}) string {
	b, err := json.MarshalIndent(v, "", " ")
	if err != nil {
		return "UNMARSHALABLE " + err.Error()
	}
	return strings.ReplaceAll(string(b), dir, "$DIR")
}

func sortedLines(ls []string) string {
	sort.Strings(ls)
	return strings.Join(ls, "\n")
}

// c08Model: identifier + full pass over the main files (part of most scenarios, under the same schedule).
func c08Model(dir string) (idents, deps []core_domain.CodeDataStruct) {
	files := cocafile.GetJavaFiles(filepath.Join(dir, "proj"))
	idents = identPass(files)
	deps = fullPass(idents, files)
	return
}

func c08Run(dir string, scenario string) c08Obs {
	var o c08Obs
	var out []string
	switch scenario {
	case "java-model":
		idents, deps := c08Model(dir)
		sortFunctions(idents)
		sortFunctions(deps)
		out = append(out, relJSON(dir, idents), relJSON(dir, deps))
	case "graphs":
		_, deps := c08Model(dir)
		for _, root := range []string{"shop.OrderService.save", "shop.OrderService.find", "shop.web.OrderController.save"} {
			dot := call.NewCallGraph().Analysis(root, deps, false)
			es, err := ParseDotEdges(dot)
			if err != nil {
				out = append(out, "UNPARSABLE "+dot)
				continue
			}
			out = append(out, "call "+root+": "+strings.Join(sortedEdges(edgeSet(es)), " | "))
		}
		var rmap map[string][]string
		dot := rcall.NewRCallGraph().Analysis("shop.PriceUtil.total", deps, func(m map[string][]string) { rmap = m })
		var rows []string
		for k, v := range rmap {
			vv := append([]string{}, v...)
			sort.Strings(vv)
			rows = append(rows, k+" <- "+strings.Join(vv, ","))
		}
		out = append(out, "rcallmap:\n"+sortedLines(rows))
		if es, err := ParseDotEdges(dot); err == nil {
			out = append(out, "rcall: "+strings.Join(sortedEdges(edgeSet(es)), " | "))
		} else {
			out = append(out, "UNPARSABLE "+dot)
		}
		v := visual.FromDeps(deps)
		var ns, ls []string
		for _, n := range v.Nodes {
			ns = append(ns, n.ID)
		}
		for _, l := range v.Links {
			ls = append(ls, fmt.Sprintf("%s->%s:%d", l.Source, l.Target, l.Value))
		}
		out = append(out, "visual nodes: "+sortedLines(ns), "visual links: "+sortedLines(ls))
	case "arch":
		idents, deps := c08Model(dir)
		g := arch.NewArchApp().Analysis(deps, core_domain.BuildIdentifierMap(idents))
		render := func(tag string, fg *tequila.FullGraph) {
			var ns, rs []string
			for k, v := range fg.NodeList {
				ns = append(ns, k+"="+v) // the value is what an include filter is matched against besides the key
			}
			for _, r := range fg.RelationList {
				rs = append(rs, r.From+"->"+r.To)
			}
			out = append(out, tag+" nodes: "+sortedLines(ns), tag+" relations: "+sortedLines(rs))
		}
		render("arch", g)
		render("merged-header", g.MergeHeaderFile(tequila.MergeHeaderFunc))
		render("merged-package", g.MergeHeaderFile(tequila.MergePackageFunc))
		// the merged graph drawn with a filter that matches some type names but not their package
		for _, flt := range []string{"Service", "Repo", "Order"} {
			flt := flt
			mp, me, err := clusterPaths("di" + g.MergeHeaderFile(tequila.MergeHeaderFunc).ToMapDot(func(s string) bool { return strings.Contains(s, flt) }).String())
			if err != nil {
				out = append(out, "merged DOT "+flt+" UNPARSABLE "+err.Error())
				continue
			}
			var ns, es []string
			for _, p := range mp {
				ns = append(ns, p)
			}
			for _, e := range me {
				es = append(es, mp[e.From]+"->"+mp[e.To])
			}
			out = append(out, "merged dot ["+flt+"] nodes: "+sortedLines(ns), "merged dot ["+flt+"] edges: "+sortedLines(es))
		}
		paths, edges, err := clusterPaths("di" + g.ToMapDot(func(string) bool { return true }).String())
		if err != nil {
			out = append(out, "DOT UNPARSABLE "+err.Error())
		} else {
			var ns, es []string
			for _, p := range paths {
				ns = append(ns, p)
			}
			for _, e := range edges {
				es = append(es, paths[e.From]+"->"+paths[e.To])
			}
			out = append(out, "dot nodes: "+sortedLines(ns), "dot edges: "+sortedLines(es))
		}
		fans := g.SortedByFan(tequila.MergeHeaderFunc)
		var fs []string
		for i, f := range fans {
			fs = append(fs, fmt.Sprintf("%s:%d/%d", f.Name, f.FanIn, f.FanOut))
			if i > 0 && fans[i-1].FanIn+fans[i-1].FanOut < f.FanIn+f.FanOut {
				o.Order = append(o.Order, "SortedByFan not in non-increasing fan order")
			}
		}
		out = append(out, "fans: "+sortedLines(fs))
	case "smells":
		app := bs.NewBadSmellApp()
		nodes := app.AnalysisPath(filepath.Join(dir, "proj", "src", "main"))
		list := app.IdentifyBadSmell(nodes, nil)
		var rows []string
		for _, b := range list {
			rows = append(rows, strings.ReplaceAll(fmt.Sprintf("%s|%s|%s|%d|%s", b.Bs, b.File, b.Line, b.Size, b.Description), dir, "$DIR"))
		}
		out = append(out, "bs:\n"+sortedLines(rows))
		sized := map[string]bool{"largeClass": true, "repeatedSwitches": true, "longParameterList": true, "longMethod": true, "dataClass": true}
		groups := bs_domain.SortSmellByType(list, func(k string) bool { return sized[k] })
		var gk []string
		for k, g := range groups {
			var sizes []string
			for i, b := range g {
				sizes = append(sizes, fmt.Sprint(b.Size))
				if sized[k] && i > 0 && g[i-1].Size < b.Size {
					o.Order = append(o.Order, "bs -s type: group "+k+" not in non-increasing size order")
				}
			}
			sort.Strings(sizes)
			gk = append(gk, k+":"+strings.Join(sizes, ","))
		}
		out = append(out, "groups: "+sortedLines(gk))
	case "tests-and-api":
		testFiles := cocafile.GetJavaTestFiles(filepath.Join(dir, "proj"))
		tid := identPass(testFiles)
		tnodes := fullPass(tid, testFiles)
		res := tbs.NewTbsApp().AnalysisPath(tnodes, core_domain.BuildIdentifierMap(tid))
		var rows []string
		for _, r := range res {
			rows = append(rows, strings.ReplaceAll(fmt.Sprintf("%s|%s|%d", r.Type, r.FileName, r.Line), dir, "$DIR"))
		}
		out = append(out, "tbs:\n"+sortedLines(rows))
		idents, deps := c08Model(dir)
		apis := new(api.JavaApiApp).AnalysisPath(filepath.Join(dir, "proj"), deps, core_domain.BuildIdentifierMap(idents), map[string]string{})
		var arows []string
		for _, a := range apis {
			arows = append(arows, fmt.Sprintf("%s %s %s %s.%s.%s", a.HttpMethod, a.Uri, a.RequestBodyClass, a.PackageName, a.ClassName, a.MethodName))
		}
		out = append(out, "apis:\n"+sortedLines(arows))
		dot, sizes := call.NewCallGraph().AnalysisByFiles(apis, deps, map[string]string{})
		if es, err := ParseDotEdges(strings.Replace(dot, "digraph G { \n", "digraph G {\n", 1)); err == nil {
			out = append(out, "api graph: "+strings.Join(sortedEdges(edgeSet(es)), " | "))
		}
		var srows []string
		for _, s := range sizes {
			srows = append(srows, fmt.Sprintf("%s %s %d", s.HTTPMethod, s.URI, s.Size))
		}
		out = append(out, "api sizes: "+sortedLines(srows))
	case "counts-and-evaluation":
		idents, deps := c08Model(dir)
		cm := count.BuildCallMap(deps)
		pl := string_helper.SortWord(cm)
		var rows []string
		for i, p := range pl {
			rows = append(rows, fmt.Sprintf("%s=%d", p.Key, p.Value))
			if i > 0 && pl[i-1].Key > p.Key {
				o.Order = append(o.Order, "count listing not in key order")
			}
		}
		out = append(out, "count: "+strings.Join(rows, " "))
		ev := evaluate.NewEvaluateAnalyser().Analysis(deps, idents)
		items := append([]string{}, ev.Nullable.Items...)
		sort.Strings(items)
		out = append(out, fmt.Sprintf("evaluate: %+v nullable=%v", ev.Summary, items))
		cw := concept.NewConceptAnalyser().Analysis(&deps)
		var cr []string
		for i, p := range cw {
			cr = append(cr, fmt.Sprintf("%s=%d", p.Key, p.Value))
			if i > 0 && cw[i-1].Key > p.Key {
				o.Order = append(o.Order, "concept listing not in key order")
			}
		}
		out = append(out, "concept: "+strings.Join(cr, " "))
	case "git":
		msgs := gitapp.BuildMessageByInput(c08GitLog)
		var rows []string
		for _, m := range msgs {
			var cs []string
			for _, ch := range m.Changes {
				cs = append(cs, fmt.Sprintf("%d/%d %s %s", ch.Added, ch.Deleted, ch.File, ch.Mode))
			}
			sort.Strings(cs)
			rows = append(rows, fmt.Sprintf("[%s] %s %s %q {%s}", m.Rev, m.Author, m.Date, m.Message, strings.Join(cs, "; ")))
		}
		out = append(out, "commits:\n"+strings.Join(rows, "\n"))
		team := gitapp.GetTeamSummary(msgs)
		var tr []string
		for i, t := range team {
			tr = append(tr, fmt.Sprintf("%s:%d/%d", t.EntityName, t.RevsCount, t.AuthorCount))
			if i > 0 && team[i-1].RevsCount < t.RevsCount {
				o.Order = append(o.Order, "team summary not in non-increasing order of revisions")
			}
		}
		out = append(out, "team: "+sortedLines(tr))
		// the change-log summary as `coca git -m` prints it: sections in any order, the same rows in each
		var clog bytes.Buffer
		gitapp.ShowChangeLogSummary(msgs, &clog)
		var sections []string
		for _, sec := range strings.Split(clog.String(), "=====================\n") {
			if strings.TrimSpace(sec) == "" {
				continue
			}
			ls := strings.Split(strings.TrimRight(sec, "\n"), "\n")
			if len(ls) > 2 {
				sort.Strings(ls[2:])
			}
			sections = append(sections, strings.Join(ls, " | "))
		}
		out = append(out, "changelog summary:\n"+sortedLines(sections))
		ages := gitapp.CalculateCodeAge(msgs)
		var ar []string
		for i, a := range ages {
			ar = append(ar, a.EntityName+"@"+a.Age.Format("2006-01-02"))
			if i > 0 && a.Age.Before(ages[i-1].Age) {
				o.Order = append(o.Order, "code age not oldest first")
			}
		}
		out = append(out, "age: "+sortedLines(ar))
		tops := gitapp.GetTopAuthors(msgs)
		var ta []string
		for i, t := range tops {
			ta = append(ta, fmt.Sprintf("%s:%d/%d", t.Name, t.CommitCount, t.LineCount))
			if i > 0 && tops[i-1].CommitCount < t.CommitCount {
				o.Order = append(o.Order, "top authors not in non-increasing order of commits")
			}
		}
		out = append(out, "top: "+sortedLines(ta))
		out = append(out, fmt.Sprintf("basic: %+v", *gitapp.BasicSummary(msgs)))
		cmap := gitapp.BuildChangeMap(msgs)
		var cr []string
		for t, fm := range cmap {
			for f, n := range fm {
				cr = append(cr, fmt.Sprintf("%s|%s=%d", t, f, n))
			}
		}
		out = append(out, "changelog: "+sortedLines(cr))
	case "cloc":
		keys := []string{"Java", "Go", "Markdown"}
		lm := map[string]map[string]processor.LanguageSummary{
			"alpha": {"Java": {Name: "Java", Code: 5}, "Go": {Name: "Go", Code: 2}, "Markdown": {}},
			"beta":  {"Java": {Name: "Java", Code: 1}, "Go": {}, "Markdown": {Name: "Markdown", Code: 7}},
			"gamma": {"Java": {}, "Go": {Name: "Go", Code: 3}, "Markdown": {}},
		}
		data := cloc.BuildClocCsvData(lm, keys)
		if len(data) > 0 {
			out = append(out, "header: "+strings.Join(data[0], ","))
			var rows []string
			for _, r := range data[1:] {
				rows = append(rows, strings.Join(r, ","))
			}
			out = append(out, "rows:\n"+sortedLines(rows))
		}
		// a tree in which no file has a recognised language: empty language list, one row per directory
		empty := cloc.BuildClocCsvData(map[string]map[string]processor.LanguageSummary{"assets": {}, "blobs": {}, "media": {}}, nil)
		var erows []string
		for _, r := range empty {
			erows = append(erows, strings.Join(r, ","))
		}
		if len(erows) > 0 {
			out = append(out, "no-language header: "+erows[0], "no-language rows:\n"+sortedLines(erows[1:]))
		}
	case "cli-commands":
		// the command layer in-process (every flag given on every run, cobra keeps flag values between runs):
		// what the commands print and write must not depend on map order either
		// a private copy of the project per run: the commands write coca_reporter/ below the working directory
		shared := dir
		dir, err := os.MkdirTemp(tmpRoot(), "mcc08cli")
		if err != nil {
			panic(err)
		}
		defer os.RemoveAll(dir)
		_ = shared
		c08Setup(dir)
		wd, _ := os.Getwd()
		if err := os.Chdir(dir); err != nil {
			panic(err)
		}
		defer os.Chdir(wd)
		run := func(args ...string) string {
			var buf bytes.Buffer
			root := cocacmd.NewRootCmd(&buf)
			root.SetArgs(args)
			if err := root.Execute(); err != nil {
				return "ERROR " + err.Error()
			}
			return strings.ReplaceAll(buf.String(), dir, "$DIR")
		}
		report := func(name string) string {
			b, err := os.ReadFile(filepath.Join(dir, "coca_reporter", name))
			if err != nil {
				return name + ": MISSING"
			}
			return name + ":\n" + strings.ReplaceAll(string(b), dir, "$DIR")
		}
		out = append(out, "analysis: "+run("analysis", "-p", "proj", "-i=true"))
		out = append(out, "api: "+run("api", "-f", "-p", "proj", "-c", "-s=false", "-a", "", "-r", "shop.web.,shop.", "-d", "coca_reporter/deps.json"), report("api.csv"), report("api.dot"))
		out = append(out, "api (other order of names): "+run("api", "-f", "-p", "proj", "-c", "-s=false", "-a", "", "-r", "shop.,shop.web.", "-d", "coca_reporter/deps.json"), report("api.csv"))
		out = append(out, "count: "+run("count", "-t", "0", "-d", "coca_reporter/deps.json"))
		out = append(out, "arch: "+run("arch", "-H=true", "-P=false", "-x", "Service,Repo", "-v=false", "-d", "coca_reporter/deps.json"), report("arch.dot"))
	case "go-frontend":
		cf := (&goapp.GoIdentApp{}).Analysis(c08GoSrc, "proj/p/file.go")
		for i, d := range cf.DataStructures {
			if i > 0 && cf.DataStructures[i-1].NodeName > d.NodeName {
				o.Order = append(o.Order, "Go data structures not sorted by name")
			}
		}
		out = append(out, relJSON(dir, cf))
	}
	o.Canon = strings.Join(out, "\n")
	return o
}

type c08Task struct {
	Dir      string `json:"dir"`
	Scenario string `json:"scenario"`
	Choices  []int  `json:"choices"`
	Expect   string `json:"expect,omitempty"` // hash of the canonical schedule's observation (set for confirmation / replay)
}

type c08Out struct {
	Canon  string       `json:"canon"`
	Order  []string     `json:"order,omitempty"`
	Events []SchedEvent `json:"events"`
	Plain  bool         `json:"plain"` // binary without the scheduler (real runtime order)
	// verdict fields (filled when the task input carries the expected observation)
	Violations []engine.Violation `json:"violations,omitempty"`
	Outcome    string             `json:"outcome,omitempty"`
}

func init() {
	engine.Tasks["c08"] = func(in json.RawMessage) interface{} {
		var t c08Task
		json.Unmarshal(in, &t)
		c08Setup(t.Dir)
		if engine.Reset != nil {
			engine.Reset()
		}
		pos := 0
		if SchedSet != nil {
			SchedEvents(true)
			SchedSet(func(alts int, site string) int {
				c := 0
				if pos < len(t.Choices) {
					c = t.Choices[pos]
					if c >= alts {
						panic(fmt.Sprintf("c08: replay divergence at event %d (%s): choice %d of %d", pos, site, c, alts))
					}
				}
				pos++
				return c
			})
		}
		obs := c08Run(t.Dir, t.Scenario)
		out := c08Out{Canon: obs.Canon, Order: obs.Order, Plain: SchedSet == nil}
		if SchedSet != nil {
			out.Events = SchedEvents(false)
			SchedSet(nil)
		}
		devSite := "canonical-schedule"
		if n := len(t.Choices); n > 0 && len(out.Events) >= n {
			devSite = out.Events[n-1].Site
		}
		out.Outcome = engine.Hash(obs.Canon)
		if t.Expect != "" && out.Outcome != t.Expect {
			out.Violations = append(out.Violations, engine.Violation{Clause: t.Scenario, Kind: "order-dependent@" + devSite,
				Detail: fmt.Sprintf("schedule %v: canonicalised result differs from the canonical schedule's", t.Choices)})
		}
		for _, ov := range obs.Order {
			kind := "promised-order-broken@" + devSite
			if len(t.Choices) == 0 {
				kind = "promised-order-broken"
			}
			out.Violations = append(out.Violations, engine.V(t.Scenario, kind, "schedule %v: %s", t.Choices, ov))
		}
		return out
	}
	engine.Register(&engine.Spec{
		ID:    "C08",
		Title: "Identical input yields identical output on every run",
		Rule: "X3 map-order scheduler: the binary for this check is built with every `for .. range <map>` of coca's packages (29 sites, found with type information at build time) routed through a shim; every dynamic range over a map with >= 2 keys is a scheduling point whose alternatives are all n! orders (n <= 4; rotations, reversal and adjacent transpositions beyond). " +
			"For 9 scenarios (Java model; call/reverse-call/visual graphs; architecture incl. merges and DOT; bad smells incl. sort by type; test smells and API list and API graph; reference counts, evaluation and concepts; git parsing and summaries; cloc rows; Go front-end) every schedule with at most 2 (quick) / 3 (thorough) deviating range events is executed and its canonicalised observation compared with the canonical schedule's; promised orders are checked in every run. Non-trivial = schedules with at least one deviation.",
		Assumptions: []string{
			"the language leaves map iteration order unspecified, so every permutation is a legal schedule",
			"entries inserted into a map during its own range are never produced (one of the two behaviours Go allows)",
			"third-party packages (gographviz, tablewriter, scc, graphcall) are not rewritten; observations are compared as parsed edge/row sets so their internal order does not matter",
			"conformance of the rewrite: for every scenario the plain binary (real runtime order) must give the same canonical observation as the rewritten binary under the canonical schedule (checked in every run)",
		},
		Custom: c08Explore,
	})
}

func c08Explore(ctx *engine.Ctx) *engine.Report {
	rep := &engine.Report{Coverage: map[string]interface{}{}, Assumptions: ctx.Spec.Assumptions}
	dir := filepath.Join(tmpRoot(), fmt.Sprintf("mc-c08-%d", os.Getpid()))
	os.MkdirAll(dir, 0o755)
	defer os.RemoveAll(dir)
	maxDev := 2
	if ctx.Tier == "thorough" {
		maxDev = 3
	}
	var cands []engine.Candidate
	states, transitions, nontrivial := 0, 0, 0
	perScenario := map[string]interface{}{}
	var samples []interface{}
	exhaustive := true
	outcomes := map[string]bool{}
	for _, sc := range c08Scenarios {
		base, err := engine.RunTaskFresh(ctx, "c08", c08Task{Dir: dir, Scenario: sc})
		if err != nil || base.Err != "" || base.Panic != "" {
			rep.HarnessErr = append(rep.HarnessErr, fmt.Sprintf("scenario %s: canonical schedule failed: %v %s %s", sc, err, base.Err, base.Panic))
			continue
		}
		var b0 c08Out
		json.Unmarshal(base.Out, &b0)
		for _, ov := range b0.Order {
			cands = append(cands, engine.Candidate{Violation: engine.V(sc, "promised-order-broken", "canonical schedule: %s", ov), Desc: sc + " canonical", Task: "c08", Input: c08Task{Dir: dir, Scenario: sc}})
		}
		// determinism gate: the canonical schedule replayed a second time gives the same observation
		again, _ := engine.RunTaskFresh(ctx, "c08", c08Task{Dir: dir, Scenario: sc})
		var b1 c08Out
		json.Unmarshal(again.Out, &b1)
		if b1.Canon != b0.Canon {
			rep.HarnessErr = append(rep.HarnessErr, "scenario "+sc+": canonical schedule is not deterministic (nondeterminism not owned)")
			continue
		}
		// conformance with the plain binary
		conform := "not-checked"
		if plain := os.Getenv("VERIF_PLAIN_MC"); plain != "" {
			pctx := *ctx
			pctx.Self = plain
			pr, perr := engine.RunTaskFresh(&pctx, "c08", c08Task{Dir: dir, Scenario: sc})
			var p0 c08Out
			json.Unmarshal(pr.Out, &p0)
			switch {
			case perr != nil || pr.Err != "" || pr.Panic != "":
				conform = "plain-binary-failed"
			case p0.Canon == b0.Canon:
				conform = "same"
			default:
				// the real runtime order already shows another observation: an order dependence, found for free
				// (not a verdict by itself: the explicit schedules below find the same dependence reproducibly)
				conform = "differs: " + firstDiff(b0.Canon, p0.Canon)
			}
		}
		frontier := [][]int{{}}
		logs := map[string][]SchedEvent{fmt.Sprint([]int{}): b0.Events}
		scStates, scTrans := 1, 0
		completed := 0
		for dev := 1; dev <= maxDev; dev++ {
			if time.Now().After(ctx.Deadline) {
				exhaustive = false
				break
			}
			var tasks []interface{}
			var meta []c08Task
			for _, prefix := range frontier {
				evs := logs[fmt.Sprint(prefix)]
				for i := len(prefix); i < len(evs); i++ {
					for alt := 1; alt < evs[i].Alts; alt++ {
						ch := make([]int, i+1)
						copy(ch, prefix)
						ch[i] = alt
						t := c08Task{Dir: dir, Scenario: sc, Choices: ch}
						tasks = append(tasks, t)
						meta = append(meta, t)
					}
				}
			}
			// in batches, so that the deadline is honoured inside a level too and no worker holds a whole level's logs
			var results []engine.TaskResult
			cutShort := false
			const batch = 6000
			for off := 0; off < len(tasks); off += batch {
				if time.Now().After(ctx.Deadline) {
					cutShort = true
					break
				}
				end := off + batch
				if end > len(tasks) {
					end = len(tasks)
				}
				rs, err := engine.RunTasks(ctx, "c08", tasks[off:end])
				if err != nil {
					rep.HarnessErr = append(rep.HarnessErr, err.Error())
				}
				results = append(results, rs...)
			}
			var next [][]int
			for i, r := range results {
				t := meta[i]
				parent := logs[fmt.Sprint(t.Choices[:len(t.Choices)-1])]
				_ = parent
				scTrans++
				nontrivial++
				devSite := ""
				// the deviating event of this schedule is the last choice
				if r.Err != "" {
					rep.HarnessErr = append(rep.HarnessErr, fmt.Sprintf("%s %v: %s", sc, t.Choices, r.Err))
					continue
				}
				var o c08Out
				if r.Panic != "" {
					cands = append(cands, engine.Candidate{Violation: engine.Violation{Clause: sc, Kind: "panic:" + r.Frame, Detail: fmt.Sprintf("schedule %v panics in %s: %s", t.Choices, r.Frame, r.Panic)},
						Desc: fmt.Sprintf("%s schedule %v", sc, t.Choices), Task: "c08", Input: t, Cost: len(t.Choices)})
					continue
				}
				json.Unmarshal(r.Out, &o)
				if len(o.Events) >= len(t.Choices) {
					devSite = o.Events[len(t.Choices)-1].Site
				}
				outcomes[engine.Hash(o.Canon)] = true
				scStates++
				if dev < maxDev {
					// the event log is needed only to extend the schedule by one more deviation
					logs[fmt.Sprint(t.Choices)] = o.Events
					next = append(next, t.Choices)
				}
				if o.Canon != b0.Canon {
					cands = append(cands, engine.Candidate{Violation: engine.Violation{Clause: sc, Kind: "order-dependent@" + devSite,
						Detail: fmt.Sprintf("scenario %s: with the map range at %s taking order #%d of its %d keys (schedule %v) the canonicalised result differs from the canonical schedule's: %s",
							sc, devSite, t.Choices[len(t.Choices)-1], c08KeysAt(o.Events, len(t.Choices)-1), t.Choices, firstDiff(b0.Canon, o.Canon))},
						Desc: fmt.Sprintf("%s schedule %v", sc, t.Choices), Task: "c08", Input: c08Task{Dir: dir, Scenario: sc, Choices: t.Choices, Expect: engine.Hash(b0.Canon)}, Cost: len(t.Choices) + 100*dev})
				}
				for _, ov := range o.Order {
					cands = append(cands, engine.Candidate{Violation: engine.V(sc, "promised-order-broken@"+devSite, "schedule %v: %s", t.Choices, ov),
						Desc: fmt.Sprintf("%s schedule %v", sc, t.Choices), Task: "c08", Input: t, Cost: len(t.Choices) + 100*dev})
				}
				if len(samples) < 5 && i == len(results)/2 {
					samples = append(samples, map[string]interface{}{"scenario": sc, "schedule": t.Choices, "deviating_site": devSite, "range_events": len(o.Events), "same_as_canonical": o.Canon == b0.Canon})
				}
			}
			frontier = next
			if cutShort {
				// the deadline fell inside this level: what ran is judged, the level does not count as completed
				exhaustive = false
				break
			}
			completed = dev
		}
		sites := map[string]bool{}
		for _, e := range b0.Events {
			sites[e.Site] = true
		}
		perScenario[sc] = map[string]interface{}{"range_events_canonical": len(b0.Events), "distinct_sites": len(sites), "schedules": scStates, "deviations_completed": completed, "plain_binary_conformance": conform}
		states += scStates
		transitions += scTrans
		if completed < maxDev {
			exhaustive = false
		}
	}
	engine.ConfirmAndReport(ctx, rep, cands)
	cov := rep.Coverage
	cov["states"] = states
	cov["transitions"] = transitions
	cov["traces_validated_against_impl"] = states
	cov["evaluations"] = states
	cov["distinct_nontrivial"] = nontrivial
	cov["distinct_outcomes"] = len(outcomes)
	cov["rule"] = ctx.Spec.Rule
	cov["samples"] = samples
	cov["exhaustive"] = exhaustive && len(rep.HarnessErr) == 0
	cov["per_scenario"] = perScenario
	cov["deviation_bound"] = maxDev
	cov["bound_completed"] = maxDev
	return rep
}

func init() {
	// "mc c08debug <dir> <scenario>": range-event counts of three consecutive runs in one process (debugging aid)
	engine.ExtraCmds["c08debug"] = func(args []string) {
		c08Setup(args[0])
		for i := 0; i < 3; i++ {
			if engine.Reset != nil {
				engine.Reset()
			}
			if SchedSet != nil {
				SchedEvents(true)
				SchedSet(func(alts int, site string) int { return 0 })
			}
			o := c08Run(args[0], args[1])
			var evs []SchedEvent
			if SchedSet != nil {
				evs = SchedEvents(false)
			}
			sites := map[string]int{}
			for _, e := range evs {
				sites[e.Site]++
			}
			fmt.Printf("run %d: %d events, canon %s, sites %v\n", i, len(evs), engine.Hash(o.Canon), sites)
		}
	}
}

func c08KeysAt(evs []SchedEvent, i int) int {
	if i >= 0 && i < len(evs) {
		return evs[i].Keys
	}
	return -1
}
