package checks

import (
	"encoding/json"
	"fmt"
	"os"
	"path/filepath"
	"sort"
	"strconv"
	"strings"
	"time"

	gitapp "github.com/modernizing/coca/pkg/application/git"
	"verif/engine"
)

// ---- C15 at its outermost observation point: the tables of `coca git -b -t -a -o` over a real repository -------

type c15Table struct {
	Header []string
	Rows   [][]string
}

// c15SplitTables cuts the tablewriter output into tables: a table starts with the row that precedes a |---| rule.
func c15SplitTables(stdout string) []c15Table {
	var ts []c15Table
	lines := strings.Split(stdout, "\n")
	cells := func(l string) []string {
		c := strings.Split(strings.Trim(strings.TrimSpace(l), "|"), "|")
		for i := range c {
			c[i] = strings.TrimSpace(c[i])
		}
		return c
	}
	for i, l := range lines {
		t := strings.TrimSpace(l)
		if !strings.HasPrefix(t, "|") {
			continue
		}
		if strings.HasPrefix(t, "|--") {
			continue
		}
		if i+1 < len(lines) && strings.HasPrefix(strings.TrimSpace(lines[i+1]), "|--") {
			ts = append(ts, c15Table{Header: cells(l)})
			continue
		}
		if len(ts) > 0 {
			ts[len(ts)-1].Rows = append(ts[len(ts)-1].Rows, cells(l))
		}
	}
	return ts
}

func c15CliGen(c *engine.C) engine.Case {
	n := []int{3, 2, 4}[c.Choose(3, "commits")]
	// a day of the recent past, so that code ages span different orders of magnitude (3 months / 80 months)
	lateDay := int((time.Now().Unix()-1577836800)/86400) - 90
	var h []gCommit
	exists := []string{}
	for i := 0; i < n; i++ {
		pfx := fmt.Sprintf("c%d-", i)
		cm := gCommit{Day: 3 * i}
		if i == 0 {
			cm.Day = -1500 // late 2015: an age of three digits in months, next to two-digit and one-digit ages
		}
		cm.Author = []string{"Ann", "Bob Stone"}[(c.Choose(2, pfx+"author")+i)%2] // authors alternate by default
		cm.Subject = []string{"feat: work", "fix: repair", "misc cleanup"}[c.Choose(3, pfx+"subject")]
		if i > 0 && c.Bool(pfx+"committed-recently") {
			cm.Day = lateDay + i
		}
		menu := []string{"add"}
		if len(exists) > 0 {
			menu = []string{"modify", "add", "rename", "delete", "modify+add"} // by default one file is touched by everybody
		}
		op := menu[c.Choose(len(menu), pfx+"op")]
		fresh := fmt.Sprintf("d/f%d.txt", i)
		if i%2 == 1 {
			fresh = fmt.Sprintf("g%d.txt", i)
		}
		switch op {
		case "add":
			cm.Ops = []gOp{{Kind: "add", Path: fresh}}
			exists = append(exists, fresh)
		case "modify":
			cm.Ops = []gOp{{Kind: "modify", Path: exists[0]}}
		case "modify+add":
			cm.Ops = []gOp{{Kind: "modify", Path: exists[0]}, {Kind: "add", Path: fresh}}
			exists = append(exists, fresh)
		case "rename":
			nw := filepath.Join(filepath.Dir(exists[0]), "renamed_"+filepath.Base(exists[0]))
			cm.Ops = []gOp{{Kind: "rename", Path: exists[0], New: nw}}
			exists[0] = nw
		case "delete":
			cm.Ops = []gOp{{Kind: "delete", Path: exists[0]}}
			exists = exists[1:]
		}
		h = append(h, cm)
	}
	// days must not decrease along the history
	for i := 1; i < len(h); i++ {
		if h[i].Day < h[i-1].Day {
			h[i].Day = h[i-1].Day + 1
		}
	}
	flags := [][]string{{"-t"}, {"-a"}, {"-o"}, {"-b"}, {"-b", "-t", "-a", "-o"}, {"-t", "-a"}, {"-a", "-o"}, {"-m", "-t"}, {"-m", "-b", "-a"}}[c.Choose(9, "tables")]
	size := []int{0, 1, 20, 2}[c.Choose(4, "full-with-size")]
	cut := size > 0
	return func() engine.Result {
		var desc []string
		for _, cm := range h {
			var ops []string
			for _, o := range cm.Ops {
				ops = append(ops, strings.TrimSpace(o.Kind+" "+o.Path+" "+o.New))
			}
			desc = append(desc, fmt.Sprintf("day %d | %s | %q | %s", cm.Day, cm.Author, cm.Subject, strings.Join(ops, "; ")))
		}
		args := append([]string{"git"}, flags...)
		if cut {
			args = append(args, "-f", "-s", strconv.Itoa(size))
		}
		res := engine.Result{InputKey: strings.Join(desc, "\n") + strings.Join(args, " "), Input: map[string]interface{}{"history": desc, "command": "coca " + strings.Join(args, " ")}, Nontrivial: true}
		root, err := os.MkdirTemp(tmpRoot(), "mcgitcli")
		if err != nil {
			panic(err)
		}
		defer os.RemoveAll(root)
		repo := filepath.Join(root, "r.git")
		if _, err := runGit(root, nil, "init", "-q", "--bare", "--initial-branch=main", repo); err != nil {
			panic(err)
		}
		if _, err := runGit(repo, buildStream(h), "fast-import", "--quiet"); err != nil {
			res.Skipped = "fast-import rejected the stream: " + err.Error()
			return res
		}
		r := runCLI(repo, args...)
		if r.Exit != 0 {
			res.Violations = append(res.Violations, engine.V("cli-git", "exit-status", "coca %v exited %d: %s", args, r.Exit, trimTo(r.Stderr+r.Stdout, 600)))
			return res
		}
		b, err := os.ReadFile(filepath.Join(repo, "coca_reporter", "commits.json"))
		if err != nil {
			res.Violations = append(res.Violations, engine.V("cli-git", "no-report", "commits.json not written: %v", err))
			return res
		}
		var msgs []gitapp.CommitMessage
		if string(b) != "null" {
			if err := json.Unmarshal(b, &msgs); err != nil {
				res.Violations = append(res.Violations, engine.V("cli-git", "report-unparsable", "commits.json: %v", err))
				return res
			}
		}
		tables := c15SplitTables(r.Stdout)
		res.Outcome = fmt.Sprint(tables)
		// -m prints the change-log summary (no table) in front of the tables; the tables must not depend on it
		allFlags := flags
		flags := []string{}
		for _, f := range allFlags {
			if f != "-m" {
				flags = append(flags, f)
			}
		}
		if len(tables) != len(flags) {
			res.Violations = append(res.Violations, engine.V("cli-git", "table-count", "coca %s printed %d tables, %d requested:\n%s", strings.Join(args[1:], " "), len(tables), len(flags), trimTo(r.Stdout, 1500)))
			return res
		}
		limit := func(n int) int {
			if cut && n > size {
				return size
			}
			return n
		}
		sortRows := func(rows [][]string) []string {
			var s []string
			for _, r := range rows {
				s = append(s, strings.Join(r, "|"))
			}
			sort.Strings(s)
			return s
		}
		check := func(t c15Table, name string, header []string, want [][]string, key func([]string) float64) {
			if strings.Join(t.Header, "|") != strings.Join(header, "|") {
				res.Violations = append(res.Violations, engine.V("cli-git", name+"-header", "the %s table has header %v, want %v:\n%s", name, t.Header, header, trimTo(r.Stdout, 1500)))
				return
			}
			if len(t.Rows) != limit(len(want)) {
				res.Violations = append(res.Violations, engine.V("cli-git", name+"-row-count", "the %s table has %d rows, want %d (%v):\n%s", name, len(t.Rows), limit(len(want)), want, trimTo(r.Stdout, 1500)))
				return
			}
			ws := map[string]int{}
			for _, w := range sortRows(want) {
				ws[w]++
			}
			for _, g := range sortRows(t.Rows) {
				if ws[g] == 0 {
					res.Violations = append(res.Violations, engine.V("cli-git", name+"-row", "the %s table has the row %q, the summary computed from commits.json has %v", name, g, sortRows(want)))
					return
				}
				ws[g]--
			}
			if key != nil {
				for i := 1; i < len(t.Rows); i++ {
					if key(t.Rows[i-1]) < key(t.Rows[i]) {
						res.Violations = append(res.Violations, engine.V("cli-git", name+"-order", "the %s table is not in the promised order: row %v before row %v", name, t.Rows[i-1], t.Rows[i]))
						return
					}
				}
				// a cut table keeps the head of the order
				if cut && size == 1 && len(want) > 1 {
					top := key(want[0])
					for _, w := range want {
						if key(w) > top {
							top = key(w)
						}
					}
					if key(t.Rows[0]) < top {
						res.Violations = append(res.Violations, engine.V("cli-git", name+"-cut", "the %s table cut to 1 row shows %v, a row with key %v exists", name, t.Rows[0], top))
					}
				}
			}
		}
		num := func(col int) func([]string) float64 {
			return func(r []string) float64 {
				if col >= len(r) {
					return -1
				}
				v, _ := strconv.ParseFloat(r[col], 64)
				return v
			}
		}
		for ti, fl := range flags {
			t := tables[ti]
			switch fl {
			case "-b":
				bs := gitapp.BasicSummary(msgs)
				cutWas := cut
				cut = false // the basic table is never cut
				check(t, "basic", []string{"STATISTIC", "NUMBER"}, [][]string{{"Commits", strconv.Itoa(bs.Commits)}, {"Entities", strconv.Itoa(bs.Entities)}, {"Changes", strconv.Itoa(bs.Changes)}, {"Authors", strconv.Itoa(bs.Authors)}}, nil)
				cut = cutWas
			case "-t":
				var want [][]string
				for _, v := range gitapp.GetTeamSummary(msgs) {
					want = append(want, []string{v.EntityName, strconv.Itoa(v.RevsCount), strconv.Itoa(v.AuthorCount)})
				}
				check(t, "team", []string{"ENTITYNAME", "REVSCOUNT", "AUTHORCOUNT"}, want, num(1))
			case "-a":
				// the month figure depends on the clock: compare the entity column, and the order numerically
				var want [][]string
				for _, v := range gitapp.CalculateCodeAge(msgs) {
					want = append(want, []string{v.EntityName})
				}
				stripped := c15Table{Header: t.Header}
				for _, r := range t.Rows {
					stripped.Rows = append(stripped.Rows, r[:1])
				}
				check(stripped, "age", []string{"ENTITYNAME", "MONTH"}, want, nil)
				for i := 1; i < len(t.Rows); i++ {
					if num(1)(t.Rows[i-1]) < num(1)(t.Rows[i]) {
						res.Violations = append(res.Violations, engine.V("cli-git", "age-order", "the code-age table is not oldest first: %v before %v", t.Rows[i-1], t.Rows[i]))
						break
					}
				}
				if cut && size == 1 && len(t.Rows) == 1 && len(want) > 1 {
					oldest := gitapp.CalculateCodeAge(msgs)
					first := oldest[0].Age
					for _, o := range oldest {
						if o.Age.Before(first) {
							first = o.Age
						}
					}
					for _, o := range oldest {
						if o.EntityName == t.Rows[0][0] && o.Age.After(first) {
							res.Violations = append(res.Violations, engine.V("cli-git", "age-cut", "the code-age table cut to 1 row shows %v, an older file exists", t.Rows[0]))
						}
					}
				}
			case "-o":
				var want [][]string
				for _, v := range gitapp.GetTopAuthors(msgs) {
					want = append(want, []string{v.Name, strconv.Itoa(v.CommitCount), strconv.Itoa(v.LineCount)})
				}
				check(t, "top-authors", []string{"AUTHOR", "COMMITCOUNT", "LINECOUNT"}, want, num(1))
			}
		}
		return res
	}
}
