package checks

// Size sweeps. The choice trees of the other sections keep every collection small (one to three files, types,
// methods, entries ...). Each section here fixes everything but ONE size and explores that size exhaustively over a
// range that passes the limits, cut-offs, default sizes and buffer sizes found in the code (7 expansions, 6 caller
// levels, 10 / 20 rows, 12-element sorts, 32 / 64 bytes, 64 entries, 4 KiB, 64 KiB ...): one case per size.

import (
	"fmt"
	"os"
	"path/filepath"
	"sort"
	"strconv"
	"strings"

	"github.com/modernizing/coca/pkg/application/analysis/goapp"
	"github.com/modernizing/coca/pkg/application/analysis/javaapp"
	"github.com/modernizing/coca/pkg/application/api"
	"github.com/modernizing/coca/pkg/application/bs"
	"github.com/modernizing/coca/pkg/application/deps"
	gitapp "github.com/modernizing/coca/pkg/application/git"
	"github.com/modernizing/coca/pkg/application/rcall"
	rename "github.com/modernizing/coca/pkg/application/refactor/rename"
	"github.com/modernizing/coca/pkg/application/refactor/unused"
	todo_app "github.com/modernizing/coca/pkg/application/todo"
	"github.com/modernizing/coca/pkg/domain/api_domain"
	"github.com/modernizing/coca/pkg/domain/bs_domain"
	"github.com/modernizing/coca/pkg/domain/core_domain"
	"verif/engine"
)

func scaleSizes(max int) []int {
	var r []int
	for i := 1; i <= max; i++ {
		r = append(r, i)
	}
	return r
}

func addSection(id string, s engine.Section) {
	sp := engine.Registry[id]
	if sp == nil {
		panic("scale: no spec " + id)
	}
	sp.Sections = append(sp.Sections, s)
}

// ---- C19: n declared dependencies, the last one (and the first one) imported ---------------------------------

func c19ScaleGen(c *engine.C) engine.Case {
	sizes := scaleSizes(80)
	n := sizes[c.Choose(len(sizes), "declared-dependencies")]
	gradle := c.Bool("gradle")
	return func() engine.Result {
		var sb strings.Builder
		if gradle {
			sb.WriteString("dependencies {\n")
			for i := 0; i < n; i++ {
				fmt.Fprintf(&sb, "    implementation 'org.lib%03d:art%d:1.0'\n", i, i)
			}
			sb.WriteString("}\n")
		} else {
			sb.WriteString("<project>\n  <modelVersion>4.0.0</modelVersion>\n  <groupId>my.app</groupId>\n  <artifactId>app</artifactId>\n  <dependencies>\n")
			for i := 0; i < n; i++ {
				fmt.Fprintf(&sb, "    <dependency>\n      <groupId>org.lib%03d</groupId>\n      <artifactId>art%d</artifactId>\n      <version>1.0</version>\n    </dependency>\n", i, i)
			}
			sb.WriteString("  </dependencies>\n</project>\n")
		}
		name := "pom.xml"
		if gradle {
			name = "build.gradle"
		}
		src := fmt.Sprintf("package my.app;\n\nimport org.lib%03d.api.First;\nimport org.lib%03d.api.Last;\n\npublic class A {\n    private First f;\n    private Last l;\n}\n", 0, n-1)
		files := []FileSpec{{Path: name, Content: sb.String()}, {Path: "src/main/java/my/app/A.java", Content: src}}
		res := engine.Result{InputKey: fmt.Sprint("c19-scale ", n, gradle), Input: map[string]interface{}{"declared_dependencies": n, "gradle": gradle, "imported": []int{0, n - 1}}, Nontrivial: true}
		root, cleanup := materialise(files)
		defer cleanup()
		java := []string{filepath.Join(root, "src/main/java/my/app/A.java")}
		idents := identPass(java)
		nodes := fullPass(idents, java)
		got := deps.NewDepApp().AnalysisPath(root, nodes)
		var want []string
		for i := 1; i < n-1; i++ {
			want = append(want, fmt.Sprintf("org.lib%03d:art%d", i, i))
		}
		var gl []string
		for _, d := range got {
			gl = append(gl, strings.Trim(d.GroupId, "\"'")+":"+d.ArtifactId)
		}
		res.Outcome = fmt.Sprint(len(gl))
		if strings.Join(gl, " ") != strings.Join(want, " ") {
			res.Violations = append(res.Violations, engine.V("unused-scale", "report-differs", "%d declared dependencies, the first and the last imported: the unused report lists %d entries %v, want the %d others in declaration order", n, len(gl), trimList(gl), len(want)))
		}
		return res
	}
}

func trimList(l []string) []string {
	if len(l) > 6 {
		return append(append([]string{}, l[:3]...), append([]string{"..."}, l[len(l)-3:]...)...)
	}
	return l
}

// ---- C20: n struct types at the top of a Go file, their methods below ------------------------------------------

func c20ScaleGen(c *engine.C) engine.Case {
	sizes := scaleSizes(24)
	n := sizes[c.Choose(len(sizes), "types")]
	layout := engine.Pick(c, "layout", "types-then-methods", "methods-then-types", "interleaved")
	return func() engine.Result {
		var types, methods strings.Builder
		for i := 1; i <= n; i++ {
			t := fmt.Sprintf("type T%d struct {\n\tf%d string\n}\n\n", i, i)
			m := fmt.Sprintf("func (r *T%d) M%d(n int) {\n\tfmt.Println(n)\n}\n\n", i, i)
			if layout == "interleaved" {
				types.WriteString(t + m)
			} else {
				types.WriteString(t)
				methods.WriteString(m)
			}
		}
		src := "package p\n\nimport \"fmt\"\n\n"
		if layout == "methods-then-types" {
			src += methods.String() + types.String()
		} else {
			src += types.String() + methods.String()
		}
		res := engine.Result{InputKey: fmt.Sprint("c20-scale ", n, layout), Input: map[string]interface{}{"types": n, "layout": layout}, Nontrivial: true}
		cf := (&goapp.GoIdentApp{}).Analysis(src, "proj/p/file.go")
		got := map[string]string{}
		cnt := map[string]int{}
		for _, d := range cf.DataStructures {
			var fs, ms []string
			for _, p := range d.InOutProperties {
				fs = append(fs, p.ParamName)
			}
			for _, f := range d.Functions {
				ms = append(ms, f.Name)
			}
			got[d.NodeName] = strings.Join(fs, ",") + "|" + strings.Join(ms, ",")
			cnt[d.NodeName]++
		}
		res.Outcome = fmt.Sprint(len(cf.DataStructures))
		for i := 1; i <= n; i++ {
			name := fmt.Sprintf("T%d", i)
			want := fmt.Sprintf("f%d|M%d", i, i)
			if cnt[name] != 1 || got[name] != want {
				res.Violations = append(res.Violations, engine.V("go-scale", "type-entry", "file with %d types (%s): %s is listed %d times as {%s}, declared {%s}", n, layout, name, cnt[name], got[name], want))
				break
			}
		}
		return res
	}
}

// ---- C06: n used imports with an unused one before, in the middle and after -----------------------------------------

func c06ScaleGen(c *engine.C) engine.Case {
	sizes := scaleSizes(90)
	n := sizes[c.Choose(len(sizes), "used-imports")]
	header := c.Bool("licence-header")
	return func() engine.Result {
		var lines []string
		drop := map[int]bool{}
		if header {
			lines = append(lines, "/*", " * licence text", " */")
		}
		lines = append(lines, "package app;", "")
		add := func(l string, unusedImport bool) {
			if unusedImport {
				drop[len(lines)] = true
			}
			lines = append(lines, l)
		}
		add("import lib.unused.Before;", true)
		var body []string
		for i := 0; i < n; i++ {
			add(fmt.Sprintf("import lib.Used%d;", i), false)
			body = append(body, fmt.Sprintf("    private Used%d u%d;", i, i))
			if i == n/2 {
				add("import lib.unused.Middle;", true)
			}
		}
		add("import lib.unused.After;", true)
		lines = append(lines, "", "public class Big {")
		lines = append(lines, body...)
		lines = append(lines, "}", "")
		var want []string
		for i, l := range lines {
			if !drop[i] {
				want = append(want, l)
			}
		}
		files := []FileSpec{{Path: "src/Big.java", Content: strings.Join(lines, "\n")}}
		res := engine.Result{InputKey: fmt.Sprint("c06-scale ", n, header), Input: map[string]interface{}{"used_imports": n, "licence_header": header, "unused_imports": "first, middle, last"}, Nontrivial: true}
		root, cleanup := materialise(files)
		defer cleanup()
		dir := filepath.Join(root, "src")
		for run := 0; run < 2; run++ {
			app := unused.NewRemoveUnusedImportApp(dir)
			app.Refactoring(app.Analysis())
		}
		b := readFileOrEmpty(filepath.Join(dir, "Big.java"))
		res.Outcome = engine.Hash(b)
		if b != strings.Join(want, "\n") {
			gl := strings.Split(b, "\n")
			detail := fmt.Sprintf("%d lines, want %d", len(gl), len(want))
			for i := 0; i < len(gl) && i < len(want); i++ {
				if gl[i] != want[i] {
					detail = fmt.Sprintf("first difference at line %d: got %q, want %q", i+1, gl[i], want[i])
					break
				}
			}
			res.Violations = append(res.Violations, engine.V("removal-scale", "file-differs", "file with %d used and 3 unused imports (first, middle, last): %s", n, detail))
		}
		return res
	}
}

// ---- C04: a target with n direct callers, one of which has a caller of its own ---------------------------------------

func c04ScaleGen(c *engine.C) engine.Case {
	sizes := scaleSizes(24)
	n := sizes[c.Choose(len(sizes), "direct-callers")]
	up := engine.Pick(c, "caller-with-its-own-caller", "none", "first", "last", "every")
	sites := []int{1, 2, 5, 7}[c.Choose(4, "call-sites-of-the-first-caller")]
	return func() engine.Result {
		var ms []GMethod
		tgt := GCall{Pkg: "p", Class: "T", Name: "target"}
		ms = append(ms, GMethod{Pkg: "p", Class: "T", Name: "target"})
		for i := 1; i <= n; i++ {
			m := GMethod{Pkg: "p", Class: "C", Name: fmt.Sprintf("c%02d", i)}
			k := 1
			if i == 1 {
				k = sites
			}
			for j := 0; j < k; j++ {
				m.Calls = append(m.Calls, tgt)
			}
			ms = append(ms, m)
			if up == "every" || (up == "first" && i == 1) || (up == "last" && i == n) {
				ms = append(ms, GMethod{Pkg: "p", Class: "U", Name: fmt.Sprintf("u%02d", i), Calls: []GCall{{Pkg: "p", Class: "C", Name: m.Name}}})
			}
		}
		g := genGraph{Model: GModel{Methods: ms}}
		return checkRCall(g, "p.T.target")
	}
}

var _ = rcall.NewRCallGraph
var _ = sort.Strings
var _ core_domain.CodeDataStruct

func init() {
	addSection("C19", engine.Section{Name: "scale-declared-dependencies-1-to-80", KQuick: -1, KThor: -1, Gen: c19ScaleGen})
	addSection("C20", engine.Section{Name: "scale-types-in-one-go-file-1-to-24", KQuick: -1, KThor: -1, Gen: c20ScaleGen})
	addSection("C06", engine.Section{Name: "scale-imports-in-one-file-1-to-90", KQuick: -1, KThor: -1, Gen: c06ScaleGen})
	addSection("C04", engine.Section{Name: "scale-direct-callers-1-to-24", KQuick: -1, KThor: -1, Gen: c04ScaleGen})
}

func readFileOrEmpty(p string) string {
	b, err := os.ReadFile(p)
	if err != nil {
		return "UNREADABLE " + err.Error()
	}
	return string(b)
}

// ---- C02: a receiver whose imported type has a simple name of 1..70 characters ------------------------------------

func c02ScaleGen(c *engine.C) engine.Case {
	sizes := scaleSizes(70)
	n := sizes[c.Choose(len(sizes), "type-name-length")]
	where := engine.Pick(c, "receiver", "field", "parameter", "local", "created")
	return func() engine.Result {
		name := "T" + strings.Repeat("y", n-1)
		if n >= 12 {
			name = "Username" + strings.Repeat("x", n-12) + "Sink"
		}
		lib := fmt.Sprintf("package lib.deep;\n\npublic class %s {\n    public void use() {\n    }\n}\n", name)
		var body string
		switch where {
		case "field":
			body = fmt.Sprintf("    private %s f;\n    public void run() {\n        f.use();\n    }\n", name)
		case "parameter":
			body = fmt.Sprintf("    public void run(%s p) {\n        p.use();\n    }\n", name)
		case "local":
			body = fmt.Sprintf("    public void run() {\n        %s v = null;\n        v.use();\n    }\n", name)
		case "created":
			body = fmt.Sprintf("    public void run() {\n        %s v = new %s();\n        v.use();\n    }\n", name, name)
		}
		svc := fmt.Sprintf("package app;\n\nimport lib.deep.%s;\n\npublic class Svc {\n%s}\n", name, body)
		files := []FileSpec{{Path: "app/Svc.java", Content: svc}, {Path: "lib/deep/" + name + ".java", Content: lib}}
		res := engine.Result{InputKey: fmt.Sprint("c02-scale ", n, where), Input: map[string]interface{}{"type_name_length": n, "receiver": where, "type": "lib.deep." + name}, Nontrivial: true}
		root, cleanup := materialise(files)
		defer cleanup()
		all := absFiles(root, files, nil)
		idents := identPass(all)
		full := fullPass(idents, []string{filepath.Join(root, "app/Svc.java")})
		found := false
		for _, d := range full {
			if d.NodeName != "Svc" {
				continue
			}
			for _, f := range d.Functions {
				if f.Name != "run" {
					continue
				}
				for _, cl := range f.FunctionCalls {
					if cl.FunctionName == "use" {
						found = true
						res.Outcome = cl.Package + "." + cl.NodeName
						if cl.NodeName != name || cl.Package != "lib.deep" {
							res.Violations = append(res.Violations, engine.V("receiver-scale", "type-or-package", "call on a %s of imported type lib.deep.%s (name of %d characters) is recorded against %q.%q", where, name, n, cl.Package, cl.NodeName))
						}
					}
					if where == "created" && cl.FunctionName == "" && cl.NodeName == name && cl.Package != "lib.deep" {
						res.Violations = append(res.Violations, engine.V("receiver-scale", "creation-package", "creation of lib.deep.%s (name of %d characters) is recorded with package %q", name, n, cl.Package))
					}
				}
			}
		}
		if !found {
			res.Violations = append(res.Violations, engine.V("receiver-scale", "call-missing", "the call use() is not recorded for Svc.run (type name of %d characters)", n))
		}
		return res
	}
}

// ---- C18: n called methods through `coca count` without -t ---------------------------------------------------------

func c18ScaleGen(c *engine.C) engine.Case {
	sizes := scaleSizes(45)
	n := sizes[c.Choose(len(sizes), "called-methods")]
	return func() engine.Result {
		var ms []GMethod
		caller := GMethod{Pkg: "p", Class: "Main", Name: "run"}
		for i := 0; i < n; i++ {
			ms = append(ms, GMethod{Pkg: "p", Class: "Repo", Name: fmt.Sprintf("find%02d", i)})
			for k := 0; k <= i%3; k++ {
				caller.Calls = append(caller.Calls, GCall{Pkg: "p", Class: "Repo", Name: fmt.Sprintf("find%02d", i)})
			}
		}
		ms = append(ms, caller)
		model := GModel{Methods: ms, FilePaths: "per-class"}
		deps := model.ToDeps()
		res := engine.Result{InputKey: fmt.Sprint("c18-scale ", n), Input: map[string]interface{}{"called_methods": n, "command": "coca count"}, Nontrivial: true}
		cwd, cleanup := materialise(nil)
		defer cleanup()
		writeReporter(cwd, "deps.json", deps)
		r := runCLI(cwd, "count")
		if cliFail(&res, "count", r) {
			return res
		}
		rows := 0
		sum := 0
		for _, row := range tableRows(r.Stdout) {
			if len(row) == 2 && row[0] != "REFS COUNT" {
				rows++
				v, _ := strconv.Atoi(row[0])
				sum += v
			}
		}
		res.Outcome = fmt.Sprint(rows, sum)
		if rows != n || sum != len(caller.Calls) {
			res.Violations = append(res.Violations, engine.V("count-scale", "rows", "%d called methods with %d call sites: `coca count` lists %d methods with %d references", n, len(caller.Calls), rows, sum))
		}
		return res
	}
}

// ---- C15: one commit with n changes, two of them renames whose order matters -----------------------------------------

func c15ScaleGen(c *engine.C) engine.Case {
	sizes := scaleSizes(30)
	n := 1 + sizes[c.Choose(len(sizes), "changes-in-the-commit")] // 2..31
	pos := engine.Pick(c, "positions-of-the-two-renames", "first-and-second", "first-and-last", "last-two", "first-and-third", "middle")
	return func() engine.Result {
		// commit 1 creates v1.go, v2.go and n-2 other files; commit 2 rotates v2 -> v3, then v1 -> v2, among modifications
		var h []hCommit
		c1 := hCommit{Rev: "abc1000", Date: "2020-01-01", Author: "Ann", Subject: "feat: add"}
		mk := func(kind, path, old string) hChange {
			ch := hChange{Kind: kind, Path: path, Old: old, Notation: path, Added: 1}
			if kind == "rename" {
				ch.Notation = renameNotation(old, path)
				ch.Added = 0
			}
			return ch
		}
		c1.Changes = append(c1.Changes, mk("create", "v1.go", ""), mk("create", "v2.go", ""))
		for i := 0; i < n-2; i++ {
			c1.Changes = append(c1.Changes, mk("create", fmt.Sprintf("f%02d.go", i), ""))
		}
		c2 := hCommit{Rev: "abc1001", Date: "2020-02-01", Author: "Bob", Subject: "fix: rotate"}
		for i := 0; i < n-2; i++ {
			c2.Changes = append(c2.Changes, mk("modify", fmt.Sprintf("f%02d.go", i), ""))
		}
		r1, r2 := mk("rename", "v3.go", "v2.go"), mk("rename", "v2.go", "v1.go")
		insert := func(at int, ch hChange) {
			if at > len(c2.Changes) {
				at = len(c2.Changes)
			}
			c2.Changes = append(c2.Changes[:at], append([]hChange{ch}, c2.Changes[at:]...)...)
		}
		switch pos {
		case "first-and-second":
			insert(0, r2)
			insert(0, r1)
		case "first-and-last":
			insert(0, r1)
			insert(len(c2.Changes), r2)
		case "last-two":
			insert(len(c2.Changes), r1)
			insert(len(c2.Changes), r2)
		case "first-and-third":
			insert(0, r1)
			insert(2, r2)
		case "middle":
			insert(len(c2.Changes)/2, r1)
			insert(len(c2.Changes)/2+2, r2)
		}
		h = []hCommit{c1, c2}
		res := engine.Result{InputKey: fmt.Sprint("c15-scale ", n, pos), Input: map[string]interface{}{"changes_in_commit": n, "renames": "v2.go => v3.go, then v1.go => v2.go", "positions": pos}, Nontrivial: true}
		team := gitapp.GetTeamSummary(toMessages(h))
		got := map[string]string{}
		for _, t := range team {
			got[t.EntityName] = fmt.Sprintf("%d/%d", t.RevsCount, t.AuthorCount)
		}
		res.Outcome = fmt.Sprint(len(team))
		// v1.go is gone, v2.go carries v1's history (2 revisions, 2 authors), v3.go carries v2's
		for _, w := range [][2]string{{"v2.go", "2/2"}, {"v3.go", "2/2"}} {
			if got[w[0]] != w[1] {
				res.Violations = append(res.Violations, engine.V("team-summary-scale", "rotation", "commit with %d changes (%s): %s has revisions/authors %q, want %s; summary has %d files", n, pos, w[0], got[w[0]], w[1], len(team)))
			}
		}
		if _, ok := got["v1.go"]; ok {
			res.Violations = append(res.Violations, engine.V("team-summary-scale", "moved-away-file-listed", "commit with %d changes (%s): v1.go is still listed", n, pos))
		}
		if len(team) != n {
			res.Violations = append(res.Violations, engine.V("team-summary-scale", "file-count", "commit with %d changes (%s): %d files listed, %d exist", n, pos, len(team), n))
		}
		return res
	}
}

func init() {
	addSection("C02", engine.Section{Name: "scale-type-name-length-1-to-70", KQuick: -1, KThor: -1, Gen: c02ScaleGen})
	addSection("C18", engine.Section{Name: "scale-called-methods-through-coca-count-1-to-45", KQuick: -1, KThor: -1, Gen: c18ScaleGen})
	addSection("C15", engine.Section{Name: "scale-changes-in-one-commit-2-to-31", KQuick: -1, KThor: -1, Gen: c15ScaleGen})
}

// ---- C03: trees whose unfolding needs 1..9 expansions, in every branching shape with <= 3 branches ------------------

func c03ScaleGen(c *engine.C) engine.Case {
	k := 1 + c.Choose(3, "branches")
	var lens []int
	for i := 0; i < k; i++ {
		lens = append(lens, c.Choose(5, fmt.Sprintf("branch%d-length", i))) // 0..4 non-leaf methods below the branch head
	}
	lookup := c.Bool("lookup")
	viaApi := c.Bool("as-api-chain")
	return func() engine.Result {
		// root r calls b0, b1, b2 in order; branch i is a chain b_i -> b_i_1 -> ... of the chosen length, ending in a leaf
		var ms []GMethod
		root := GMethod{Pkg: "p", Class: "R", Name: "root"}
		for i, l := range lens {
			head := fmt.Sprintf("b%d", i)
			root.Calls = append(root.Calls, GCall{Pkg: "p", Class: "B", Name: head})
			prev := head
			for j := 1; j <= l; j++ {
				next := fmt.Sprintf("b%d_%d", i, j)
				ms = append(ms, GMethod{Pkg: "p", Class: "B", Name: prev, Calls: []GCall{{Pkg: "p", Class: "B", Name: next}}})
				prev = next
			}
			ms = append(ms, GMethod{Pkg: "p", Class: "B", Name: prev, Calls: []GCall{{Pkg: "p", Class: "L", Name: fmt.Sprintf("leaf%d", i)}}})
			ms = append(ms, GMethod{Pkg: "p", Class: "L", Name: fmt.Sprintf("leaf%d", i)})
		}
		ms = append([]GMethod{root}, ms...)
		g := genGraph{Model: GModel{Methods: ms}}
		for _, m := range ms {
			g.Names = append(g.Names, m.Full())
		}
		if viaApi {
			return checkApiGraph(g, []api_domain.RestAPI{{Uri: "/r", HttpMethod: "GET", PackageName: "p", ClassName: "R", MethodName: "root"}}, nil)
		}
		return checkCallGraph(g, "p.R.root", lookup)
	}
}

// ---- C05: the declaration of the renamed method on line 3..140, a call at a two-digit column on line 5 -------------

func c05ScaleGen(c *engine.C) engine.Case {
	sizes := scaleSizes(140)
	pad := sizes[c.Choose(len(sizes), "blank-lines-before-the-declaration")] - 1
	newName := []string{"compute", "f", "recomputeEverythingFromScratch"}[c.Choose(3, "new-name")]
	return func() engine.Result {
		var sb strings.Builder
		sb.WriteString("package p;\n\npublic class B {\n    void run() {\n        double d = foo();\n        long e = 1 + foo() + foo();\n    }\n")
		for i := 0; i < pad; i++ {
			if i%7 == 3 {
				sb.WriteString("    // filler\n")
			} else {
				sb.WriteString("\n")
			}
		}
		sb.WriteString("    long foo() {\n        return 1;\n    }\n}\n")
		src := sb.String()
		files := []FileSpec{{Path: "p/B.java", Content: src}}
		res := engine.Result{InputKey: fmt.Sprint("c05-scale ", pad, newName), Input: map[string]interface{}{"blank_lines_before_declaration": pad, "rename": "p.B.foo -> p.B." + newName}, Nontrivial: true}
		root, cleanup := materialise(files)
		defer cleanup()
		all := absFiles(root, files, nil)
		idents := identPass(all)
		deps := fullPass(idents, all)
		rename.RenameMethodApp(deps).Refactoring("p.B.foo -> p.B." + newName)
		got := readFileOrEmpty(filepath.Join(root, "p/B.java"))
		want := strings.ReplaceAll(src, "foo()", newName+"()")
		res.Outcome = engine.Hash(got)
		if got != want {
			gl, wl := strings.Split(got, "\n"), strings.Split(want, "\n")
			detail := "line count differs"
			for i := 0; i < len(gl) && i < len(wl); i++ {
				if gl[i] != wl[i] {
					detail = fmt.Sprintf("line %d: got %q, want %q", i+1, gl[i], wl[i])
					break
				}
			}
			res.Violations = append(res.Violations, engine.V("bytes-scale", "file-differs", "declaration on line %d, three call sites on lines 5-6, foo -> %s: %s", 8+pad, newName, detail))
		}
		return res
	}
}

// ---- C01: a class with n methods (files from a few hundred bytes to > 64 KiB) through a directory walk --------------

func c01ScaleGen(c *engine.C) engine.Case {
	sizes := []int{1, 2, 3, 5, 8, 13, 21, 34, 55, 89, 144, 233, 377, 500, 610, 640, 700, 900}
	n := sizes[c.Choose(len(sizes), "methods")]
	return func() engine.Result {
		var sb strings.Builder
		sb.WriteString("package com.acme.billing;\n\npublic class InvoiceService {\n")
		for i := 0; i < n; i++ {
			fmt.Fprintf(&sb, "    public int computeInvoiceTotalForCustomerNumber%04d(int amount, String currency) {\n        return amount + %d;\n    }\n\n", i, i)
		}
		sb.WriteString("}\n")
		files := []FileSpec{{Path: "src/main/java/com/acme/billing/InvoiceService.java", Content: sb.String()}, {Path: "src/main/java/com/acme/billing/Small.java", Content: "package com.acme.billing;\n\npublic class Small {\n}\n"}}
		res := engine.Result{InputKey: fmt.Sprint("c01-scale ", n), Input: map[string]interface{}{"methods": n, "file_bytes": sb.Len()}, Nontrivial: true}
		root, cleanup := materialise(files)
		defer cleanup()
		identApp := javaapp.NewJavaIdentifierApp()
		idents := identApp.AnalysisPath(root)
		fullApp := javaapp.NewJavaFullApp()
		full := fullApp.AnalysisPath(root, idents)
		res.Outcome = fmt.Sprint(len(idents), len(full))
		for pass, nodes := range map[string][]core_domain.CodeDataStruct{"identifier": idents, "full": full} {
			cnt, fns := 0, 0
			for _, d := range nodes {
				if d.NodeName == "InvoiceService" {
					cnt++
					for _, f := range d.Functions {
						if strings.HasPrefix(f.Name, "computeInvoiceTotalForCustomerNumber") {
							fns++
						}
					}
				}
			}
			if cnt != 1 || fns != n {
				res.Violations = append(res.Violations, engine.V(pass+"-scale", "entries", "%s pass: class with %d methods (%d bytes): %d entries with %d of its methods", pass, n, sb.Len(), cnt, fns))
			}
		}
		return res
	}
}

func init() {
	addSection("C03", engine.Section{Name: "scale-branching-trees-around-the-expansion-budget", KQuick: -1, KThor: -1, Gen: c03ScaleGen})
	addSection("C05", engine.Section{Name: "scale-declaration-line-8-to-147", KQuick: -1, KThor: -1, Gen: c05ScaleGen})
	addSection("C01", engine.Section{Name: "scale-methods-per-class-1-to-900", KQuick: -1, KThor: -1, Gen: c01ScaleGen})
}

// ---- C12: a controller whose class annotations come after 1..130 import lines (preamble up to ~10 KiB) ---------------

func c12ScaleGen(c *engine.C) engine.Case {
	sizes := []int{1, 2, 5, 10, 20, 30, 40, 45, 50, 52, 54, 56, 58, 60, 65, 70, 80, 100, 130}
	n := sizes[c.Choose(len(sizes), "import-lines-before-the-class")]
	header := c.Bool("licence-header")
	return func() engine.Result {
		var sb strings.Builder
		if header {
			sb.WriteString("/*\n * Licensed to somebody under one or more contributor licence agreements; see the NOTICE file distributed with\n * this work for additional information regarding ownership.\n */\n")
		}
		sb.WriteString("package web;\n\nimport org.springframework.web.bind.annotation.*;\n")
		for i := 0; i < n; i++ {
			fmt.Fprintf(&sb, "import com.acme.platform.orders.domain.model.aggregate.OrderAggregatePart%03d;\n", i)
		}
		sb.WriteString("\n@RestController\n@RequestMapping(\"/orders\")\npublic class OrderResource {\n    @GetMapping(\"/list\")\n    public String list() {\n        return \"x\";\n    }\n\n    @PostMapping(\"/create\")\n    public String create(String body) {\n        return \"y\";\n    }\n}\n")
		files := []FileSpec{{Path: "src/OrderResource.java", Content: sb.String()}}
		res := engine.Result{InputKey: fmt.Sprint("c12-scale ", n, header), Input: map[string]interface{}{"import_lines": n, "licence_header": header, "bytes_before_the_class": strings.Index(sb.String(), "@RestController")}, Nontrivial: true}
		root, cleanup := materialise(files)
		defer cleanup()
		identApp := javaapp.NewJavaIdentifierApp()
		idents := identApp.AnalysisPath(root)
		fullApp := javaapp.NewJavaFullApp()
		deps := fullApp.AnalysisPath(root, idents)
		apis := new(api.JavaApiApp).AnalysisPath(root, deps, core_domain.BuildIdentifierMap(idents), map[string]string{})
		var got []string
		for _, a := range apis {
			got = append(got, a.HttpMethod+" "+a.Uri)
		}
		sort.Strings(got)
		res.Outcome = strings.Join(got, ",")
		if strings.Join(got, ",") != "GET /orders/list,POST /orders/create" {
			res.Violations = append(res.Violations, engine.V("entries-scale", "handlers", "controller after %d import lines (%d bytes before the class): entries %v, want GET /orders/list and POST /orders/create", n, strings.Index(sb.String(), "@RestController"), got))
		}
		return res
	}
}

// ---- C17: a TODO comment after a line of 1 B .. 200 KiB ---------------------------------------------------------------

func c17ScaleGen(c *engine.C) engine.Case {
	sizes := []int{1, 100, 1000, 4095, 4096, 4097, 8192, 65535, 65536, 65537, 100000, 200000}
	n := sizes[c.Choose(len(sizes), "bytes-of-the-first-line")]
	kind := engine.Pick(c, "file", "java-string-literal", "javascript-bundle", "python-data")
	return func() engine.Result {
		name, line, todo := "A.java", "", "// TODO: after the long line"
		switch kind {
		case "java-string-literal":
			line = "class A { String s = \"" + strings.Repeat("a", n) + "\"; }"
		case "javascript-bundle":
			name = "bundle.js"
			line = "var d=[" + strings.Repeat("1,", n/2) + "0];"
		case "python-data":
			name, todo = "data.py", "# FIXME(zed) after the long line"
			line = "d = '" + strings.Repeat("b", n) + "'"
		}
		files := []FileSpec{{Path: "src/" + name, Content: line + "\n" + todo + "\n"}}
		res := engine.Result{InputKey: fmt.Sprint("c17-scale ", n, kind), Input: map[string]interface{}{"first_line_bytes": len(line), "file": name}, Nontrivial: true}
		root, cleanup := materialise(files)
		defer cleanup()
		got := todo_app.NewTodoApp().AnalysisPath(filepath.Join(root, "src"), []string{filepath.Ext(name)})
		res.Outcome = fmt.Sprint(len(got))
		if len(got) != 1 || got[0].Line != 2 {
			var rows []string
			for _, g := range got {
				rows = append(rows, fmt.Sprintf("line %d %q", g.Line, g.Message))
			}
			res.Violations = append(res.Violations, engine.V("entries-scale", "after-long-line", "%s with a first line of %d bytes and a TODO comment on line 2: entries %v", name, len(line), rows))
		}
		return res
	}
}

// ---- C10: two long methods 10..1500 lines apart, sorted by type --------------------------------------------------------

func c10ScaleGen(c *engine.C) engine.Case {
	sizes := []int{1, 10, 100, 500, 900, 990, 1000, 1010, 1100, 1500, 2100, 3300}
	gap := sizes[c.Choose(len(sizes), "lines-between-the-two-long-methods")]
	diff := 1 + c.Choose(3, "length-difference")
	biggerFirst := c.Bool("the-bigger-method-comes-first")
	return func() engine.Result {
		long := func(name string, n int) string {
			var sb strings.Builder
			sb.WriteString("    public void " + name + "() {\n")
			for i := 0; i < n-2; i++ {
				sb.WriteString("        n++;\n")
			}
			sb.WriteString("    }\n")
			return sb.String()
		}
		// both well above the long-method threshold (the reported size is the distance between first and last line)
		a, b := 35, 35+diff
		if biggerFirst {
			a, b = 35+diff, 35
		}
		var sb strings.Builder
		sb.WriteString("package p;\n\npublic class Big {\n    private int n;\n")
		sb.WriteString(long("first", a))
		for i := 0; i < gap; i++ {
			sb.WriteString("\n")
		}
		sb.WriteString(long("second", b))
		sb.WriteString("}\n")
		files := []FileSpec{{Path: "src/Big.java", Content: sb.String()}}
		res := engine.Result{InputKey: fmt.Sprint("c10-scale ", gap, biggerFirst, diff), Input: map[string]interface{}{"lines_between": gap, "method_lengths": []int{a, b}}, Nontrivial: true}
		root, cleanup := materialise(files)
		defer cleanup()
		app := bs.NewBadSmellApp()
		list := app.IdentifyBadSmell(app.AnalysisPath(filepath.Join(root, "src")), nil)
		var sizesGot []int
		for _, f := range bs_domain.SortSmellByType(list, func(k string) bool { return k == "longMethod" })["longMethod"] {
			sizesGot = append(sizesGot, f.Size)
		}
		res.Outcome = fmt.Sprint(sizesGot)
		if len(sizesGot) != 2 {
			res.Violations = append(res.Violations, engine.V("findings-scale", "long-methods", "two methods of %d and %d lines, %d lines apart: longMethod sizes %v", a, b, gap, sizesGot))
		} else if sizesGot[0] < sizesGot[1] {
			res.Violations = append(res.Violations, engine.V("sort-scale", "size-order-longMethod", "two methods of %d and %d lines, %d lines apart, sorted by type: sizes %v are not in non-increasing order", a, b, gap, sizesGot))
		}
		return res
	}
}

func init() {
	addSection("C12", engine.Section{Name: "scale-import-lines-before-a-controller-1-to-130", KQuick: -1, KThor: -1, Gen: c12ScaleGen})
	addSection("C17", engine.Section{Name: "scale-first-line-1-byte-to-200-kib", KQuick: -1, KThor: -1, Gen: c17ScaleGen})
	addSection("C10", engine.Section{Name: "scale-distance-between-two-long-methods", KQuick: -1, KThor: -1, Gen: c10ScaleGen})
}

// ---- C14: a commit whose header line is 60 B .. 70 KiB long, followed by another commit --------------------------------

func c14ScaleGen(c *engine.C) engine.Case {
	sizes := []int{10, 1000, 4000, 4050, 4060, 4065, 4070, 4075, 4080, 4090, 4096, 4100, 5000, 8192, 20000, 70000}
	n := sizes[c.Choose(len(sizes), "subject-bytes")]
	shape := engine.Pick(c, "subject-shape", "words", "one-long-token")
	return func() engine.Result {
		subj := ""
		if shape == "words" {
			for len(subj) < n {
				subj += "word "
			}
			subj = strings.TrimSpace(subj[:n])
		} else {
			subj = "see https://example.org/" + strings.Repeat("x", n)
		}
		h := []gCommit{
			{Author: "Ann Lee", Subject: subj, Day: 0, Ops: []gOp{{Kind: "add", Path: "a.txt"}}},
			{Author: "Bob", Subject: "second", Day: 1, Ops: []gOp{{Kind: "add", Path: "b.txt"}, {Kind: "modify", Path: "a.txt"}}},
			{Author: "Ann Lee", Subject: "third", Day: 2, Ops: []gOp{{Kind: "add", Path: "c.txt"}}},
		}
		r := c14Check(h)
		r.InputKey = fmt.Sprint("c14-scale ", n, shape)
		r.Input = map[string]interface{}{"subject_bytes": len(subj), "shape": shape}
		return r
	}
}

// ---- C16: two files of one language, the shorter one with 0..300 branches -----------------------------------------------

func c16ScaleGen(c *engine.C) engine.Case {
	sizes := []int{0, 1, 10, 50, 90, 99, 100, 101, 110, 120, 200, 300}
	k := sizes[c.Choose(len(sizes), "branches-in-the-shorter-file")]
	diff := 1 + c.Choose(3, "code-line-difference")
	return func() engine.Result {
		lines := 320
		var plain, branchy strings.Builder
		plain.WriteString("class Plain {\n    int x;\n")
		for i := 0; i < lines-3; i++ {
			fmt.Fprintf(&plain, "    int v%d = %d;\n", i, i)
		}
		plain.WriteString("}\n")
		branchy.WriteString("class Branchy {\n    int x;\n    void m() {\n")
		for i := 0; i < lines-diff-5; i++ {
			if i < k {
				fmt.Fprintf(&branchy, "        if (x > %d) x++;\n", i)
			} else {
				fmt.Fprintf(&branchy, "        x += %d;\n", i)
			}
		}
		branchy.WriteString("    }\n}\n")
		files := []FileSpec{{Path: "proj/src/Plain.java", Content: plain.String()}, {Path: "proj/src/Branchy.java", Content: branchy.String()}}
		res := engine.Result{InputKey: fmt.Sprint("c16-scale ", k, diff), Input: map[string]interface{}{"code_lines": []int{lines, lines - diff}, "branches_in_the_shorter_file": k}, Nontrivial: true}
		root, cleanup := materialise(files)
		defer cleanup()
		r := runCLI(root, "cloc", "proj", "--top-file", "--top-size", "30")
		if r.Exit != 0 {
			res.Violations = append(res.Violations, engine.V("cli", "exit-status", "coca cloc --top-file exited %d: %s", r.Exit, trimTo(r.Stderr+r.Stdout, 400)))
			return res
		}
		var sums []struct {
			Name  string
			Files []struct {
				Filename string
				Code     int64
			}
		}
		if err := readReport(root, "sort_cloc.json", &sums); err != nil {
			res.Violations = append(res.Violations, engine.V("top-file-scale", "no-report", "sort_cloc.json: %v", err))
			return res
		}
		var codes []int64
		for _, s := range sums {
			if s.Name == "Java" {
				for _, f := range s.Files {
					codes = append(codes, f.Code)
				}
			}
		}
		res.Outcome = fmt.Sprint(codes)
		if len(codes) != 2 || codes[0] < codes[1] {
			res.Violations = append(res.Violations, engine.V("top-file-scale", "json-order", "two Java files of %d and %d code lines, the shorter with %d branches: sort_cloc.json lists %v", lines, lines-diff, k, codes))
		}
		return res
	}
}

func init() {
	addSection("C14", engine.Section{Name: "scale-subject-10-bytes-to-70-kib", KQuick: -1, KThor: -1, Gen: c14ScaleGen})
	addSection("C16", engine.Section{Name: "scale-branches-in-the-shorter-file-0-to-300", KQuick: -1, KThor: -1, Gen: c16ScaleGen})
}
