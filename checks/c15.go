package checks

import (
	"fmt"
	"os"
	"path/filepath"
	"sort"
	"strings"

	gitapp "github.com/modernizing/coca/pkg/application/git"
	"verif/engine"
)

// ---- history generator --------------------------------------------------------------------------------

type hChange struct {
	Kind     string // create | modify | delete | rename
	Path     string // for rename: new path
	Old      string // for rename
	Notation string // text git prints for the path
	Added    int
	Deleted  int
}

type hCommit struct {
	Rev, Author, Date, Subject string
	Changes                    []hChange
}

var c15Authors = []string{"Ann", "Bob Lee"}
var c15Subjects = []string{"misc cleanup", "feat: add x", "fix(core): repair y"}

// renameNotation renders old->new the way `git log --numstat` prints renames.
func renameNotation(a, b string) string {
	// a transcription of git's pprint_rename (diff.c): common prefix ending in a slash, common suffix starting
	// with a slash (which may be the slash that ends the prefix), the differing middles in braces
	la, lb := len(a), len(b)
	pfx := 0
	for i := 0; i < la && i < lb && a[i] == b[i]; i++ {
		if a[i] == '/' {
			pfx = i + 1
		}
	}
	at := func(s string, i int) byte {
		if i == len(s) {
			return 0
		}
		return s[i]
	}
	adj := 0
	if pfx > 0 {
		adj = 1
	}
	sfx := 0
	for oi, ni := la, lb; pfx-adj <= oi && pfx-adj <= ni && at(a, oi) == at(b, ni); oi, ni = oi-1, ni-1 {
		if at(a, oi) == '/' {
			sfx = la - oi
		}
	}
	am, bm := la-pfx-sfx, lb-pfx-sfx
	if am < 0 {
		am = 0
	}
	if bm < 0 {
		bm = 0
	}
	var sb strings.Builder
	if pfx+sfx > 0 {
		sb.WriteString(a[:pfx] + "{")
	}
	sb.WriteString(a[pfx:pfx+am] + " => " + b[pfx:pfx+bm])
	if pfx+sfx > 0 {
		sb.WriteString("}" + a[la-sfx:])
	}
	return sb.String()
}

// c15Step extends the history by one commit chosen from the menu enabled in the current tree.
func c15Step(c *engine.C, idx int, exists map[string]bool, order []string, deep bool, braces bool) hCommit {
	pfx := fmt.Sprintf("c%d-", idx)
	cm := hCommit{Rev: fmt.Sprintf("%07x", 0xabc1000+idx), Date: fmt.Sprintf("2020-01-%02d", idx+1)}
	cm.Author = c15Authors[c.Choose(len(c15Authors), pfx+"author")]
	cm.Subject = c15Subjects[c.Choose(len(c15Subjects), pfx+"subject")]
	if idx > 0 && c.Bool(pfx+"same-date-as-previous") {
		cm.Date = fmt.Sprintf("2020-01-%02d", idx)
	}
	var existing []string
	dup := map[string]bool{}
	for _, p := range order {
		if exists[p] && !dup[p] {
			dup[p] = true
			existing = append(existing, p)
		}
	}
	type op struct {
		name string
		chs  []hChange
	}
	var menu []op
	fresh := ""
	paths := []string{"d/a.txt", "r.txt", "d/s/c.txt", "d/b.txt"}
	if braces {
		// the first file lies below a directory with braces in its name
		paths[0] = "tpl/{name}/a.txt"
	}
	if deep {
		// the first file lies two levels down, so that renames of it have multi-element prefixes and rests
		paths = []string{"d/s/a.txt", "r.txt", "d/a.txt", "d/b.txt"}
	}
	for _, p := range paths {
		if !exists[p] {
			fresh = p
			break
		}
	}
	create := func(p string) hChange { return hChange{Kind: "create", Path: p, Notation: p, Added: 3} }
	modify := func(p string) hChange { return hChange{Kind: "modify", Path: p, Notation: p, Added: 2, Deleted: 1} }
	rename := func(o, n string) hChange {
		return hChange{Kind: "rename", Path: n, Old: o, Notation: renameNotation(o, n)}
	}
	if len(existing) > 0 {
		menu = append(menu, op{"modify-first", []hChange{modify(existing[0])}})
	}
	if fresh != "" {
		menu = append(menu, op{"create", []hChange{create(fresh)}})
	}
	if len(existing) > 1 {
		menu = append(menu, op{"modify-second", []hChange{modify(existing[1])}})
		menu = append(menu, op{"modify-two", []hChange{modify(existing[0]), modify(existing[1])}})
	}
	if len(existing) > 0 {
		f := existing[0]
		menu = append(menu, op{"delete-first", []hChange{{Kind: "delete", Path: f, Notation: f, Deleted: 3}}})
		dir, base := "", f
		if i := strings.LastIndex(f, "/"); i >= 0 {
			dir, base = f[:i], f[i+1:]
		}
		cands := []string{}
		if dir != "" {
			if i := strings.Index(dir, "/"); i >= 0 {
				// a level inserted above a sub-directory: git prints d/{ => m}/s/c.txt (empty old side, multi-element rest)
				cands = append(cands, dir[:i]+"/m"+dir[i:]+"/"+base, dir[i+1:]+"/"+base)
			}
			cands = append(cands, dir+"/n"+base, "e/"+base, dir+"/sub/"+base, base)
		} else {
			cands = append(cands, "d/"+base, "n"+base)
		}
		// a rename that changes nothing but the letter case of the file name
		if up := strings.ToUpper(base); up != base {
			if dir != "" {
				up = dir + "/" + up
			}
			cands = append(cands, up)
		}
		for _, n := range cands {
			if !exists[n] {
				menu = append(menu, op{"rename-first->" + n, []hChange{rename(f, n)}})
			}
		}
		// rename + re-creation of the old path in one commit, in both orders
		if n := cands[0]; !exists[n] {
			menu = append(menu, op{"rename-then-recreate", []hChange{rename(f, n), create(f)}})
			menu = append(menu, op{"recreate-then-rename", []hChange{create(f), rename(f, n)}})
		}
	}
	o := menu[c.Choose(len(menu), pfx+"op")]
	if strings.HasPrefix(o.name, "rename") || strings.HasPrefix(o.name, "recreate") {
		c.Tag("rename")
	}
	if o.name == "recreate-then-rename" {
		c.Tag("recreate-listed-before-rename")
	}
	cm.Changes = o.chs
	return cm
}

func c15ApplyTree(exists map[string]bool, order *[]string, cm hCommit) {
	// renames first, then the rest (the reference semantics of a commit is order-independent)
	for _, ch := range cm.Changes {
		if ch.Kind == "rename" {
			delete(exists, ch.Old)
			exists[ch.Path] = true
			*order = append(*order, ch.Path)
		}
	}
	for _, ch := range cm.Changes {
		switch ch.Kind {
		case "create":
			exists[ch.Path] = true
			*order = append(*order, ch.Path)
		case "delete":
			delete(exists, ch.Path)
		}
	}
}

func c15History(c *engine.C, maxDepth int) []hCommit {
	n := maxDepth
	if maxDepth > 1 {
		n = 1 + c.Choose(maxDepth, "commits") // 1..maxDepth, default 1
	}
	// where the first file lies: d/a.txt, two levels down (d/s/a.txt), or below a directory with braces in its name
	first := c.Choose(3, "first-file-location")
	deep, braces := first == 1, first == 2
	exists := map[string]bool{}
	var order []string
	var h []hCommit
	for i := 0; i < n; i++ {
		cm := c15Step(c, i, exists, order, deep, braces)
		c15ApplyTree(exists, &order, cm)
		h = append(h, cm)
	}
	return h
}

func toMessages(h []hCommit) []gitapp.CommitMessage {
	var r []gitapp.CommitMessage
	for _, cm := range h {
		m := gitapp.CommitMessage{Rev: cm.Rev, Author: cm.Author, Date: cm.Date, Message: cm.Subject}
		for _, ch := range cm.Changes {
			mode := ""
			switch ch.Kind {
			case "create":
				mode = "create"
			case "delete":
				mode = "delete"
			}
			m.Changes = append(m.Changes, gitapp.FileChange{Added: ch.Added, Deleted: ch.Deleted, File: ch.Notation, Mode: mode})
		}
		r = append(r, m)
	}
	return r
}

// ---- reference fold -----------------------------------------------------------------------------------

type refInfo struct {
	revs, authors map[string]bool
	first         string
}

func refFold(h []hCommit, continueAfterDelete bool) map[string]*refInfo {
	live := map[string]*refInfo{}
	dead := map[string]*refInfo{}
	touch := func(p string, cm hCommit) {
		in := live[p]
		if in == nil {
			if continueAfterDelete && dead[p] != nil {
				in = dead[p]
				delete(dead, p)
			} else {
				in = &refInfo{revs: map[string]bool{}, authors: map[string]bool{}, first: cm.Date}
			}
			live[p] = in
		}
		in.revs[cm.Rev] = true
		in.authors[cm.Author] = true
	}
	for _, cm := range h {
		for _, ch := range cm.Changes {
			if ch.Kind == "rename" {
				if in := live[ch.Old]; in != nil {
					delete(live, ch.Old)
					live[ch.Path] = in
				}
				touch(ch.Path, cm)
			}
		}
		for _, ch := range cm.Changes {
			if ch.Kind == "create" || ch.Kind == "modify" {
				touch(ch.Path, cm)
			}
		}
		for _, ch := range cm.Changes {
			if ch.Kind == "delete" {
				if in := live[ch.Path]; in != nil {
					in.revs[cm.Rev] = true
					dead[ch.Path] = in
				}
				delete(live, ch.Path)
			}
		}
	}
	return live
}

func histString(h []hCommit) string {
	var sb strings.Builder
	for _, cm := range h {
		fmt.Fprintf(&sb, "[%s] %s %s %s", cm.Rev, cm.Author, cm.Date, cm.Subject)
		for _, ch := range cm.Changes {
			fmt.Fprintf(&sb, " | %s %s", ch.Kind, ch.Notation)
		}
		sb.WriteString("\n")
	}
	return sb.String()
}

func c15Check(h []hCommit) engine.Result {
	res := engine.Result{InputKey: histString(h), Input: strings.Split(strings.TrimSpace(histString(h)), "\n"), Nontrivial: len(h) > 1}
	var out []string
	// --- team summary
	team := gitapp.GetTeamSummary(toMessages(h))
	refs := []map[string]*refInfo{refFold(h, false), refFold(h, true)}
	matchTeam := func(ref map[string]*refInfo) string {
		if len(team) != len(ref) {
			return fmt.Sprintf("team summary lists %d files, %d exist", len(team), len(ref))
		}
		for _, row := range team {
			in := ref[row.EntityName]
			if in == nil {
				return fmt.Sprintf("team summary lists %q which does not exist any more (or never did)", row.EntityName)
			}
			if row.RevsCount != len(in.revs) {
				return fmt.Sprintf("file %q: %d revisions reported, %d distinct commits touched it", row.EntityName, row.RevsCount, len(in.revs))
			}
			if row.AuthorCount != len(in.authors) {
				return fmt.Sprintf("file %q: %d authors reported, %d distinct authors touched it", row.EntityName, row.AuthorCount, len(in.authors))
			}
		}
		return ""
	}
	why := matchTeam(refs[0])
	if why != "" && matchTeam(refs[1]) == "" {
		why = ""
	}
	if why != "" {
		kind := "wrong-count"
		if strings.Contains(why, "lists") {
			kind = "wrong-file-set"
		}
		res.Violations = append(res.Violations, engine.V("team-summary", kind, "%s\nhistory:\n%s", why, histString(h)))
	}
	for i := 1; i < len(team); i++ {
		if team[i-1].RevsCount < team[i].RevsCount {
			res.Violations = append(res.Violations, engine.V("team-summary", "order", "rows not in non-increasing order of revisions: %d before %d", team[i-1].RevsCount, team[i].RevsCount))
		}
	}
	var trows []string
	for _, r := range team {
		trows = append(trows, fmt.Sprintf("%s:%d/%d", r.EntityName, r.RevsCount, r.AuthorCount))
	}
	sort.Strings(trows)
	out = append(out, "team "+strings.Join(trows, " "))
	// --- code age
	ages := gitapp.CalculateCodeAge(toMessages(h))
	matchAge := func(ref map[string]*refInfo) string {
		if len(ages) != len(ref) {
			return fmt.Sprintf("code age lists %d files, %d exist", len(ages), len(ref))
		}
		for _, a := range ages {
			in := ref[a.EntityName]
			if in == nil {
				return fmt.Sprintf("code age lists %q which does not exist", a.EntityName)
			}
			if a.Age.Format("2006-01-02") != in.first {
				return fmt.Sprintf("file %q: first-commit date %s reported, it is %s", a.EntityName, a.Age.Format("2006-01-02"), in.first)
			}
		}
		return ""
	}
	why = matchAge(refs[0])
	if why != "" && matchAge(refs[1]) == "" {
		why = ""
	}
	if why != "" {
		res.Violations = append(res.Violations, engine.V("code-age", "wrong", "%s\nhistory:\n%s", why, histString(h)))
	}
	for i := 1; i < len(ages); i++ {
		if ages[i].Age.Before(ages[i-1].Age) {
			res.Violations = append(res.Violations, engine.V("code-age", "order", "not oldest first"))
		}
	}
	// --- top authors
	tops := gitapp.GetTopAuthors(toMessages(h))
	wantC, wantL := map[string]int{}, map[string]int{}
	for _, cm := range h {
		wantC[cm.Author]++
		for _, ch := range cm.Changes {
			wantL[cm.Author] += ch.Added - ch.Deleted
		}
	}
	sum := 0
	var arows []string
	for i, t := range tops {
		sum += t.CommitCount
		if t.CommitCount != wantC[t.Name] || t.LineCount != wantL[t.Name] {
			res.Violations = append(res.Violations, engine.V("top-authors", "wrong-count", "author %q: %d commits / %d net lines reported, history has %d / %d", t.Name, t.CommitCount, t.LineCount, wantC[t.Name], wantL[t.Name]))
		}
		if i > 0 && tops[i-1].CommitCount < t.CommitCount {
			res.Violations = append(res.Violations, engine.V("top-authors", "order", "not in non-increasing order of commits"))
		}
		arows = append(arows, fmt.Sprintf("%s:%d/%d", t.Name, t.CommitCount, t.LineCount))
	}
	if sum != len(h) || len(tops) != len(wantC) {
		res.Violations = append(res.Violations, engine.V("top-authors", "sum", "commit counts sum to %d over %d authors; history has %d commits by %d authors", sum, len(tops), len(h), len(wantC)))
	}
	sort.Strings(arows)
	out = append(out, "top "+strings.Join(arows, " "))
	// --- basic summary
	bs := gitapp.BasicSummary(toMessages(h))
	rawPaths, decoded := map[string]bool{}, map[string]bool{}
	for _, cm := range h {
		for _, ch := range cm.Changes {
			rawPaths[ch.Notation] = true
			decoded[ch.Path] = true
			if ch.Kind == "rename" {
				decoded[ch.Old] = true
			}
		}
	}
	if bs.Commits != len(h) || bs.Authors != len(wantC) {
		res.Violations = append(res.Violations, engine.V("basic-summary", "commits-or-authors", "summary says %d commits, %d authors; history has %d, %d", bs.Commits, bs.Authors, len(h), len(wantC)))
	}
	if bs.Entities != len(rawPaths) && bs.Entities != len(decoded) {
		res.Violations = append(res.Violations, engine.V("basic-summary", "paths", "summary says %d distinct paths; history touches %d (rename notation as one path: %d)", bs.Entities, len(decoded), len(rawPaths)))
	}
	out = append(out, fmt.Sprintf("basic %d %d %d", bs.Commits, bs.Authors, bs.Entities))
	// --- changelog
	cmap := gitapp.BuildChangeMap(toMessages(h))
	wantM := map[string]map[string]int{}
	for _, cm := range h {
		typ := ""
		switch {
		case strings.HasPrefix(cm.Subject, "feat: "):
			typ = "feat"
		case strings.HasPrefix(cm.Subject, "fix(core): "):
			typ = "fix"
		}
		if typ == "" {
			continue
		}
		if wantM[typ] == nil {
			wantM[typ] = map[string]int{}
		}
		seen := map[string]bool{}
		for _, ch := range cm.Changes {
			if !seen[ch.Path] {
				wantM[typ][ch.Path]++
				seen[ch.Path] = true
			}
		}
	}
	render := func(m map[string]map[string]int) string {
		var rows []string
		for t, fm := range m {
			for f, n := range fm {
				rows = append(rows, fmt.Sprintf("%s|%s=%d", t, f, n))
			}
		}
		sort.Strings(rows)
		return strings.Join(rows, " ")
	}
	if render(cmap) != render(wantM) {
		kind := "counts"
		for _, fm := range cmap {
			for f := range fm {
				if strings.Contains(f, " => ") {
					kind = "rename-not-decoded"
				}
			}
		}
		res.Violations = append(res.Violations, engine.V("changelog", kind, "changelog summary %q, want %q\nhistory:\n%s", render(cmap), render(wantM), histString(h)))
	}
	out = append(out, "changelog "+render(cmap))
	res.Outcome = strings.Join(out, "\n")
	return res
}

func c15Gen(depthQ, depthT int) func(c *engine.C) engine.Case {
	return func(c *engine.C) engine.Case {
		d := depthQ
		if !c.Quick() {
			d = depthT
		}
		h := c15History(c, d)
		return func() engine.Result { return c15Check(h) }
	}
}

// ---- the rename notation of the synthesised histories is bound to real git

var c15BindOld = []string{"d/a.txt", "a.txt", "d/s/a.txt", "d/s/t/a.txt", "d/ab.txt"}

// c15BindNew lists the destinations of a file: every way of inserting, dropping or replacing one directory level,
// renaming the base name (also to a name sharing a prefix or a suffix), and moving to or from the root.
func c15BindNew(old string) []string {
	parts := strings.Split(old, "/")
	dirs, base := parts[:len(parts)-1], parts[len(parts)-1]
	join := func(d []string, b string) string { return strings.Join(append(append([]string{}, d...), b), "/") }
	var r []string
	add := func(p string) {
		if p == old {
			return
		}
		for _, q := range r {
			if q == p {
				return
			}
		}
		r = append(r, p)
	}
	add(join(dirs, "n"+base))
	add(join(dirs, strings.TrimSuffix(base, ".txt")+"c.txt"))
	for i := 0; i <= len(dirs); i++ { // insert a level at depth i
		d := append(append(append([]string{}, dirs[:i]...), "m"), dirs[i:]...)
		add(join(d, base))
	}
	for i := 0; i < len(dirs); i++ { // drop / replace level i
		d := append(append([]string{}, dirs[:i]...), dirs[i+1:]...)
		add(join(d, base))
		e := append([]string{}, dirs...)
		e[i] = "e"
		add(join(e, base))
		e2 := append([]string{}, dirs...)
		e2[i] = dirs[i] + "2"
		add(join(e2, base))
	}
	add(base)
	add(join([]string{"x", "y"}, base))
	return r
}

func c15BindGen(c *engine.C) engine.Case {
	old := c15BindOld[c.Choose(len(c15BindOld), "old-path")]
	dests := c15BindNew(old)
	nw := dests[c.Choose(len(dests), "new-path")]
	touchAfter := c.Bool("modified-after-the-move")
	return func() engine.Result {
		res := engine.Result{InputKey: old + " => " + nw + fmt.Sprint(touchAfter), Input: map[string]interface{}{"old": old, "new": nw, "modified_after": touchAfter}, Nontrivial: true}
		h := []gCommit{{Author: "Ann", Subject: "add", Day: 0, Ops: []gOp{{Kind: "add", Path: old}}}, {Author: "Bob", Subject: "move", Day: 1, Ops: []gOp{{Kind: "rename", Path: old, New: nw}}}}
		if touchAfter {
			h = append(h, gCommit{Author: "Ann", Subject: "edit", Day: 2, Ops: []gOp{{Kind: "modify", Path: nw}}})
		}
		root, err := os.MkdirTemp(tmpRoot(), "mcbind")
		if err != nil {
			panic(err)
		}
		defer os.RemoveAll(root)
		repo := filepath.Join(root, "r.git")
		if _, err := runGit(root, nil, "init", "-q", "--bare", "--initial-branch=main", repo); err != nil {
			panic(err)
		}
		if _, err := runGit(repo, buildStream(h), "fast-import", "--quiet"); err != nil {
			panic(err)
		}
		// the git invocation of cmd/git.go
		logText, err := runGit(repo, nil, "log", "--pretty=format:[%h] %aN %ad %s", "--date=short", "--numstat", "--reverse", "--summary")
		if err != nil {
			panic(err)
		}
		printed := ""
		for _, l := range strings.Split(logText, "\n") {
			if f := strings.SplitN(l, "\t", 3); len(f) == 3 && strings.Contains(f[2], " => ") {
				printed = f[2]
			}
		}
		res.Outcome = printed
		if printed != renameNotation(old, nw) {
			res.Violations = append(res.Violations, engine.V("notation-model", "differs-from-git", "git prints the move %s -> %s as %q, the history synthesiser as %q", old, nw, printed, renameNotation(old, nw)))
			return res
		}
		msgs := gitapp.BuildMessageByInput(logText)
		wantRevs, wantAuthors := 2, 2
		if touchAfter {
			wantRevs = 3
		}
		team := gitapp.GetTeamSummary(msgs)
		if len(team) != 1 || team[0].EntityName != nw {
			res.Violations = append(res.Violations, engine.V("team-summary", "wrong-file-set", "after the move %s (real git log), the team summary lists %+v; exactly %q exists", printed, team, nw))
		} else if team[0].RevsCount != wantRevs || team[0].AuthorCount != wantAuthors {
			res.Violations = append(res.Violations, engine.V("team-summary", "wrong-count", "after the move %s (real git log), %q has %d revisions by %d authors reported; %d by %d touched it", printed, nw, team[0].RevsCount, team[0].AuthorCount, wantRevs, wantAuthors))
		}
		age := gitapp.CalculateCodeAge(msgs)
		if len(age) != 1 || age[0].EntityName != nw || age[0].Age.Format("2006-01-02") != "2020-01-01" {
			var got []string
			for _, a := range age {
				got = append(got, a.EntityName+"@"+a.Age.Format("2006-01-02"))
			}
			res.Violations = append(res.Violations, engine.V("code-age", "wrong", "after the move %s (real git log), code age lists %v; expected %s@2020-01-01", printed, got, nw))
		}
		return res
	}
}

func init() {
	engine.Register(&engine.Spec{
		ID:    "C15",
		Title: "Git summaries are consistent with the parsed history",
		Rule: "X1 over synthesised commit lists: every history of <=3 commits (full product: 2 authors x 3 conventional-commit subjects x date tie x the operations enabled in the current tree: create, modify one/two files, delete, renames in-directory / across directories / into a sub-directory / to and from the root in git's {a => b} and full-path notations, rename + re-creation of the old path in both listing orders), " +
			"and histories of <=5 (quick) / <=6 (thorough) commits within the deviation bound. Non-trivial = at least two commits.",
		Assumptions: []string{
			"deleted-then-recreated path: both 'history restarts' and 'history continues' are accepted",
			"BasicSummary: 'distinct paths' accepted either as decoded paths or with a rename notation counted as one path; its Changes counter is not compared",
			"reference semantics of a commit is order-independent (renames, then creations/modifications, then deletions)",
		},
		Sections: []engine.Section{
			{Name: "histories-full-d3", KQuick: -1, KThor: -1, Gen: c15Gen(3, 3)},
			{Name: "histories-dev-d5", KQuick: 4, KThor: 5, Gen: c15Gen(5, 6)},
			{Name: "rename-notation-bound-to-real-git", KQuick: -1, KThor: -1, Gen: c15BindGen},
			{Name: "through-coca-git-tables", KQuick: 2, KThor: 3, Gen: c15CliGen},
		},
	})
}
