package checks

import (
	"fmt"
	"sort"
	"strings"

	"github.com/modernizing/coca/pkg/application/call"
	"github.com/modernizing/coca/pkg/application/rcall"
	"verif/engine"
)

func checkRCall(g genGraph, target string) engine.Result {
	deps := g.Model.ToDeps()
	var gotMap map[string][]string
	calls := 0
	dot := rcall.NewRCallGraph().Analysis(target, deps, func(m map[string][]string) {
		calls++
		gotMap = map[string][]string{}
		for k, v := range m {
			gotMap[k] = append([]string{}, v...)
		}
	})
	res := engine.Result{
		InputKey: g.Model.String() + "|target=" + target,
		Input:    map[string]interface{}{"model": strings.Split(strings.TrimSpace(g.Model.String()), "\n"), "target": target},
	}
	// reference: callee -> callers, once per call site, restricted to declared callees
	declared := map[string]bool{}
	for _, m := range g.Model.Methods {
		declared[m.Full()] = true
	}
	want := map[string][]string{}
	for _, m := range g.Model.Methods {
		for _, c := range m.Calls {
			if c.Class == "" {
				continue
			}
			if declared[c.Full()] {
				want[c.Full()] = append(want[c.Full()], m.Full())
			}
		}
	}
	res.Nontrivial = len(want[target]) > 0
	if calls != 1 {
		res.Violations = append(res.Violations, engine.V("map", "callback-count", "write callback invoked %d times", calls))
	}
	canon := func(m map[string][]string) string {
		var ks []string
		for k := range m {
			ks = append(ks, k)
		}
		sort.Strings(ks)
		var sb strings.Builder
		for _, k := range ks {
			if len(m[k]) == 0 {
				continue
			}
			v := append([]string{}, m[k]...)
			sort.Strings(v)
			sb.WriteString(k + " <- " + strings.Join(v, ",") + "\n")
		}
		return sb.String()
	}
	for k := range gotMap {
		if !declared[k] {
			res.Violations = append(res.Violations, engine.V("map", "undeclared-key", "reverse-call map has key %q which is not a declared method", k))
		}
	}
	if canon(gotMap) != canon(want) {
		res.Violations = append(res.Violations, engine.Violation{Clause: "map", Kind: "not-exact-inverse",
			Detail: fmt.Sprintf("reverse-call map differs from the inverse of the project-internal call relation\nexpected:\n%sgot:\n%s", canon(want), canon(gotMap)), Expected: want, Observed: gotMap})
	}
	es, err := ParseDotEdges(dot)
	if err != nil {
		res.Outcome = "UNPARSABLE " + dot
		res.Violations = append(res.Violations, engine.V("dot-well-formed", "strict-reader", "reverse call graph is not well-formed DOT: %v\n%s", err, dot))
		return res
	}
	if err := DotWellFormed(dot); err != nil {
		res.Violations = append(res.Violations, engine.V("dot-well-formed", "gographviz", "gographviz rejects the reverse call graph: %v\n%s", err, dot))
	}
	got := edgeSet(es)
	res.Outcome = canon(gotMap) + "--\n" + strings.Join(sortedEdges(got), "\n")
	RC := reach(want, target) // target and its transitive callers
	for e := range got {
		isIn := false
		for _, a := range want[e.To] {
			if a == e.From {
				isIn = true
			}
		}
		if !isIn {
			res.Violations = append(res.Violations, engine.V("soundness", "edge-not-in-map", "edge %q -> %q does not come from the reverse-call map", e.From, e.To))
		} else if !RC[e.To] {
			res.Violations = append(res.Violations, engine.V("soundness", "not-on-caller-chain", "edge %q -> %q does not lie on a caller chain ending at %q", e.From, e.To, target))
		}
	}
	for _, a := range want[target] {
		if a != target && !got[Edge{a, target}] {
			res.Violations = append(res.Violations, engine.Violation{Clause: "direct-callers", Kind: "missing",
				Detail: fmt.Sprintf("direct caller %q of target %q is missing from the reverse call graph\nmap:\n%sdot:\n%s", a, target, canon(want), dot)})
			break
		}
	}
	return res
}

// checkLookup: `coca call -l` draws the call graph of the target plus its reverse call graph; the reverse part
// is C04's relation: well-formed, only caller-chain edges, every direct caller of the target present.
func checkLookup(g genGraph, target string) engine.Result {
	deps := g.Model.ToDeps()
	dot := call.NewCallGraph().Analysis(target, deps, true)
	res := engine.Result{
		InputKey: g.Model.String() + "|lookup-target=" + target,
		Input:    map[string]interface{}{"model": strings.Split(strings.TrimSpace(g.Model.String()), "\n"), "target": target, "through": "call graph with lookup"},
	}
	declared := map[string]bool{}
	for _, m := range g.Model.Methods {
		declared[m.Full()] = true
	}
	callers := map[string]bool{}
	for _, m := range g.Model.Methods {
		for _, c := range m.Calls {
			if c.Class != "" && c.Full() == target && declared[target] && m.Full() != target {
				callers[m.Full()] = true
			}
		}
	}
	res.Nontrivial = len(callers) > 0
	es, err := ParseDotEdges(dot)
	if err != nil {
		res.Outcome = "UNPARSABLE " + dot
		res.Violations = append(res.Violations, engine.V("lookup-dot-well-formed", "strict-reader", "call graph with lookup is not well-formed DOT: %v\n%s", err, dot))
		return res
	}
	got := edgeSet(es)
	res.Outcome = strings.Join(sortedEdges(got), "\n")
	for a := range callers {
		if !got[Edge{a, target}] {
			res.Violations = append(res.Violations, engine.Violation{Clause: "lookup-direct-callers", Kind: "missing",
				Detail: fmt.Sprintf("direct caller %q of target %q is missing from the call graph drawn with lookup\nmodel:\n%sdot:\n%s", a, target, g.Model.String(), dot)})
			break
		}
	}
	return res
}

func c04LookupGen(o graphOpts) func(c *engine.C) engine.Case {
	return func(c *engine.C) engine.Case {
		g := buildGraph(c, o)
		target := g.Names[c.Choose(o.N, "target")]
		return func() engine.Result { return checkLookup(g, target) }
	}
}

func c04Gen(o graphOpts) func(c *engine.C) engine.Case {
	return func(c *engine.C) engine.Case {
		g := buildGraph(c, o)
		ti := c.Choose(o.N+1, "target")
		target := "p.A.absent"
		if ti > 0 {
			target = g.Names[ti-1]
		}
		return func() engine.Result { return checkRCall(g, target) }
	}
}

func init() {
	engine.Register(&engine.Spec{
		ID:    "C04",
		Title: "Reverse call graph is the exact inverse of the project-internal call relation",
		Rule: "X1 over the abstract call models of C03 (full product of adjacency matrices on <=3/4 nodes x class distribution x target; 2-node multigraphs with " +
			"multiplicity <=2/3 and quote/unresolved/external/overload options; sparse 5-node multigraphs within the deviation bound). Non-trivial = the target has at least one declared caller.",
		Assumptions: []string{
			"each case starts from pristine package state; 'twice in one process' is C07",
			"the reverse-call map is compared as callee -> multiset of callers; absent key == empty list",
		},
		Sections: []engine.Section{
			{Name: "rcall-full-n3", KQuick: -1, KThor: -1, Gen: c04Gen(graphOpts{N: 3, MaxMult: 1, DistMenu: true})},
			{Name: "rcall-multi-n2", KQuick: -1, KThor: -1, Gen: c04Gen(graphOpts{N: 2, MaxMult: 3, Extras: true, DistMenu: true})},
			{Name: "rcall-dev-n5", KQuick: 3, KThor: 4, Gen: c04Gen(graphOpts{N: 5, MaxMult: 2, Extras: true, DistMenu: true})},
			{Name: "rcall-full-n4", KQuick: -1, KThor: -1, Gen: c04Gen(graphOpts{N: 4, MaxMult: 1})},
			{Name: "lookup-full-n3", KQuick: -1, KThor: -1, Gen: c04LookupGen(graphOpts{N: 3, MaxMult: 1, DistMenu: true})},
			{Name: "lookup-full-n3-overloaded", KQuick: -1, KThor: -1, Gen: c04LookupGen(graphOpts{N: 3, MaxMult: 1, Overload: true})},
			{Name: "lookup-multi-n2", KQuick: -1, KThor: -1, Gen: c04LookupGen(graphOpts{N: 2, MaxMult: 3, Extras: true})},
			{Name: "lookup-dev-n8", KQuick: 3, KThor: 4, Gen: c04LookupGen(graphOpts{N: 8, MaxMult: 1})},
			{Name: "through-coca-call-rcall-count", KQuick: 1, KThor: 2, Gen: cliGraphGen},
		},
	})
}
