package checks

import "testing"

func TestRenameNotation(t *testing.T) {
	for _, c := range [][3]string{
		{"d/a.txt", "d/sub/a.txt", "d/{ => sub}/a.txt"},
		{"d/s/a.txt", "d/m/s/a.txt", "d/{ => m}/s/a.txt"},
		{"d/s/a.txt", "s/a.txt", "{d/s => s}/a.txt"},
		{"d/a.txt", "d/na.txt", "d/{a.txt => na.txt}"},
		{"d/a.txt", "e/a.txt", "{d => e}/a.txt"},
		{"d/a.txt", "a.txt", "d/a.txt => a.txt"},
		{"r.txt", "d/r.txt", "r.txt => d/r.txt"},
		{"r.txt", "nr.txt", "r.txt => nr.txt"},
		{"d/s/a.txt", "d/s/sub/a.txt", "d/s/{ => sub}/a.txt"},
		{"d/sub/a.txt", "d/a.txt", "d/{sub => }/a.txt"},
	} {
		if g := renameNotation(c[0], c[1]); g != c[2] {
			t.Errorf("%s -> %s: got %q want %q", c[0], c[1], g, c[2])
		}
	}
}
