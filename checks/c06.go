package checks

import (
	"fmt"
	"os"
	"path/filepath"
	"strings"

	"github.com/modernizing/coca/pkg/application/refactor/unused"
	"verif/engine"
)

var c06Kinds = []string{"used-field-type", "unused", "used-annotation", "used-new", "used-new-of-nested-type", "static-used-named-like-a-restricted-keyword", "used-static-receiver", "used-catch", "used-generic-arg", "wildcard", "static-used", "static-unused", "unused-second", "used-throws",
	"used-static-field", "used-method-reference", "used-nested-receiver", "used-class-literal", "used-cast", "used-instanceof", "used-extends", "used-implements", "used-parameter-type", "used-return-type", "used-local-type", "used-array-type", "used-static-constant-in-expression", "used-annotation-argument", "wildcard-then-used-single-of-same-package", "used-single-then-wildcard-of-same-package", "unused-single-after-wildcard-of-same-package"}

type c06File struct {
	name     string
	lines    []string // source lines
	drop     map[int]bool // 0-based line indexes that must be deleted
	optional map[int]bool // may be deleted
}

func c06Build(c *engine.C, idx int) c06File {
	pfx := fmt.Sprintf("f%d-", idx)
	name := []string{"Alpha", "Beta", "Gamma"}[idx]
	f := c06File{name: name + ".java", drop: map[int]bool{}, optional: map[int]bool{}}
	add := func(l string) int { f.lines = append(f.lines, l); return len(f.lines) - 1 }
	if !c.Bool(pfx + "no-package-line") {
		add("package app;")
		add("")
	}
	n := []int{2, 0, 1, 3, 4}[c.Choose(5, pfx+"imports")]
	sep := engine.PickTag(c, pfx+"between-imports", "nothing", "blank-line", "comment-line")
	if c.Bool(pfx + "enum-only-file-with-an-import") {
		// a file that declares neither a class nor an interface; the tool leaves such files alone
		c.Tag("enum-only-file")
		f.optional[add(fmt.Sprintf("import lib.left.ForEnum%d;", idx))] = true
		add("")
		add("public enum " + name + " {")
		add("    RED, GREEN")
		add("}")
		add("")
		return f
	}
	if c.Bool(pfx + "marker-interface-with-left-over-imports") {
		// a type with an empty body: no reference of any kind is recorded for this file; all its imports are unused
		c.Tag("marker-interface")
		for i := 0; i < n; i++ {
			if i > 0 && sep == "blank-line" {
				add("")
			}
			f.drop[add(fmt.Sprintf("import lib.left.Over%d%d;", idx, i))] = true
		}
		add("")
		add("public interface " + name + " {")
		add("}")
		add("")
		return f
	}
	var body []string
	classAnn := ""
	throws := ""
	extends := ""
	var implements []string
	for i := 0; i < n; i++ {
		kind := c06Kinds[(c.Choose(len(c06Kinds), fmt.Sprintf("%simp%d", pfx, i))+i)%len(c06Kinds)]
		if i > 0 {
			switch sep {
			case "blank-line":
				add("")
			case "comment-line":
				add("// import lib.Commented;")
			}
		}
		u := fmt.Sprintf("%d%d", idx, i)
		switch kind {
		case "used-field-type":
			add("import lib.Field" + u + ";")
			body = append(body, "    private Field"+u+" field"+u+";")
		case "unused", "unused-second":
			f.drop[add("import lib.unused.Never"+u+";")] = true
		case "used-annotation":
			add("import lib.Marker" + u + ";")
			classAnn += "@Marker" + u + "\n"
		case "used-new":
			add("import lib.Made" + u + ";")
			body = append(body, "    private Object made"+u+" = new Made"+u+"();")
		case "used-new-of-nested-type":
			// the import is referenced only as the outer name of a created nested type
			add("import lib.Nest" + u + ";")
			body = append(body, "    private Object nested"+u+" = new Nest"+u+".Inner(1);")
		case "used-static-receiver":
			add("import lib.Util" + u + ";")
			body = append(body, "    void call"+u+"() {\n        Util"+u+".go();\n    }")
		case "used-catch":
			add("import lib.BadThing" + u + ";")
			body = append(body, "    void risky"+u+"() {\n        try {\n            int a = 1;\n        } catch (BadThing"+u+" e) {\n            int b = 2;\n        }\n    }")
		case "used-generic-arg":
			add("import lib.Elem" + u + ";")
			body = append(body, "    private java.util.List<Elem"+u+"> list"+u+";")
		case "wildcard":
			add("import lib.wild" + u + ".*;")
		case "static-used":
			add("import static lib.Helpers.help" + u + ";")
			body = append(body, "    void helped"+u+"() {\n        help"+u+"();\n    }")
		case "static-used-named-like-a-restricted-keyword":
			// `with`, `to`, `open`, `record` have token types of their own and are identifiers all the same
			kw := []string{"with", "to", "open", "record"}[(idx+i)%4]
			add("import static lib.Dsl" + u + "." + kw + ";")
			body = append(body, "    void dsl"+u+"() {\n        "+kw+"(1);\n    }")
		case "static-unused":
			f.optional[add("import static lib.Helpers.nope"+u+";")] = true
		case "used-static-field":
			add("import lib.Limits" + u + ";")
			body = append(body, "    int limit"+u+"() {\n        return Limits"+u+".MAX;\n    }")
		case "used-method-reference":
			add("import lib.Fn" + u + ";")
			body = append(body, "    private Runnable ref"+u+" = Fn"+u+"::run;")
		case "used-nested-receiver":
			add("import lib.Outer" + u + ";")
			body = append(body, "    void nested"+u+"() {\n        Outer"+u+".Inner.go();\n    }")
		case "used-class-literal":
			add("import lib.Lit" + u + ";")
			body = append(body, "    private Object lit"+u+" = Lit"+u+".class;")
		case "used-cast":
			add("import lib.Cast" + u + ";")
			body = append(body, "    Object cast"+u+"(Object o) {\n        return (Cast"+u+") o;\n    }")
		case "used-instanceof":
			add("import lib.Inst" + u + ";")
			body = append(body, "    boolean inst"+u+"(Object o) {\n        return o instanceof Inst"+u+";\n    }")
		case "used-extends":
			add("import lib.Base" + u + ";")
			if extends == "" {
				extends = "Base" + u
			} else {
				implements = append(implements, "Base"+u) // a class has one superclass
			}
		case "used-implements":
			add("import lib.Iface" + u + ";")
			implements = append(implements, "Iface"+u)
		case "used-parameter-type":
			add("import lib.Param" + u + ";")
			body = append(body, "    void take"+u+"(Param"+u+" p) {\n    }")
		case "used-return-type":
			add("import lib.Ret" + u + ";")
			body = append(body, "    Ret"+u+" give"+u+"() {\n        return null;\n    }")
		case "used-local-type":
			add("import lib.Loc" + u + ";")
			body = append(body, "    void local"+u+"() {\n        Loc"+u+" v = null;\n    }")
		case "used-array-type":
			add("import lib.Arr" + u + ";")
			body = append(body, "    private Arr"+u+"[] arr"+u+";")
		case "used-static-constant-in-expression":
			add("import static lib.Consts.K" + u + ";")
			body = append(body, "    int sum"+u+"() {\n        return 1 + K"+u+";\n    }")
		case "used-annotation-argument":
			add("import lib.Mode" + u + ";")
			body = append(body, "    @SuppressWarnings(Mode"+u+".NAME)\n    void annotated"+u+"() {\n    }")
		case "wildcard-then-used-single-of-same-package":
			add("import samepkg" + u + ".*;")
			add("import samepkg" + u + ".Covered" + u + ";")
			body = append(body, "    private Covered"+u+" covered"+u+";")
		case "used-single-then-wildcard-of-same-package":
			add("import samepkg" + u + ".Covered" + u + ";")
			add("import samepkg" + u + ".*;")
			body = append(body, "    private Covered"+u+" covered"+u+";")
		case "unused-single-after-wildcard-of-same-package":
			add("import samepkg" + u + ".*;")
			f.drop[add("import samepkg"+u+".NotUsed"+u+";")] = true
		case "used-throws":
			add("import lib.Oops" + u + ";")
			throws = "Oops" + u
			body = append(body, "    void thrower"+u+"() throws "+throws+" {\n    }")
		}
		if kind != "used-field-type" {
			c.Tag("import=" + kind)
		}
	}
	add("")
	for _, l := range strings.Split(strings.TrimSuffix(classAnn, "\n"), "\n") {
		if l != "" {
			add(l)
		}
	}
	decl := "public class " + name
	if extends != "" {
		decl += " extends " + extends
	}
	if len(implements) > 0 {
		decl += " implements " + strings.Join(implements, ", ")
	}
	add(decl + " {")
	add("    private int n;")
	if c.Bool(pfx + "ends-with-a-nested-type-named-Builder") {
		// the last type declared in the file has the same simple name in every file that takes this option
		body = append(body, "    static class Builder {\n        int b;\n    }")
	}
	for _, b := range body {
		for _, l := range strings.Split(b, "\n") {
			add(l)
		}
	}
	add("}")
	add("")
	return f
}

func (f c06File) content() string { return strings.Join(f.lines, "\n") }

// accept: every line kept or deleted according to drop/optional; returns "" if ok
func (f c06File) accept(got string) string {
	gl := strings.Split(got, "\n")
	gi := 0
	for i, l := range f.lines {
		switch {
		case f.drop[i]:
			if gi < len(gl) && gl[gi] == l && !f.sameAsNextKept(i) {
				return fmt.Sprintf("unused import on line %d (%q) was not removed", i+1, l)
			}
		case f.optional[i]:
			if gi < len(gl) && gl[gi] == l {
				gi++
			}
		default:
			if gi >= len(gl) || gl[gi] != l {
				found := "<end of file>"
				if gi < len(gl) {
					found = gl[gi]
				}
				return fmt.Sprintf("line %d (%q) was deleted or altered (found %q)", i+1, l, found)
			}
			gi++
		}
	}
	if gi != len(gl) {
		return fmt.Sprintf("%d extra lines at the end", len(gl)-gi)
	}
	return ""
}

func (f c06File) sameAsNextKept(i int) bool { return false }

func c06Gen(c *engine.C) engine.Case {
	n := []int{1, 2, 3}[c.Choose(3, "files")]
	var fs []c06File
	for i := 0; i < n; i++ {
		fs = append(fs, c06Build(c, i))
	}
	if n > 1 {
		c.Tag("several-files")
	}
	throughCLI := c.Bool("through-coca-refactor")
	if throughCLI {
		c.Tag("cli")
	}
	// how the lines are written: line ends and blanks behind the import statements
	form := engine.PickTag(c, "line-form", "lf", "crlf", "blank-behind-imports", "crlf-and-blank-behind-imports", "tab-behind-imports")
	for fi := range fs {
		f := &fs[fi]
		f.lines = append([]string{}, f.lines...)
		for i, l := range f.lines {
			if strings.HasPrefix(l, "import ") && strings.Contains(form, "blank-behind-imports") {
				l += " "
			}
			if strings.HasPrefix(l, "import ") && form == "tab-behind-imports" {
				l += "\t"
			}
			if strings.HasPrefix(form, "crlf") && i < len(f.lines)-1 {
				l += "\r"
			}
			f.lines[i] = l
		}
	}
	return func() engine.Result {
		var specs []FileSpec
		anyDrop := false
		for _, f := range fs {
			specs = append(specs, FileSpec{Path: filepath.Join("src", f.name), Content: f.content()})
			anyDrop = anyDrop || len(f.drop) > 0
		}
		res := engine.Result{InputKey: filesKey(specs) + fmt.Sprint(throughCLI), Input: map[string]interface{}{"files": filesInput(specs), "through_coca_refactor": throughCLI}, Nontrivial: anyDrop}
		if why := validateJava(specs); why != "" {
			res.Skipped = why
			return res
		}
		root, cleanup := materialise(specs)
		defer cleanup()
		dir := filepath.Join(root, "src")
		cliFailed := ""
		run := func() {
			if throughCLI {
				// `coca refactor -m <move config> -p <dir>` with an empty move configuration: no class moves,
				// then the unused-import removal
				os.WriteFile(filepath.Join(root, "move.conf"), []byte(""), 0o644)
				if r := runCLI(root, "refactor", "-m", "move.conf", "-p", "src"); r.Exit != 0 {
					cliFailed = fmt.Sprintf("coca refactor -m exited %d: %s", r.Exit, trimTo(r.Stderr+r.Stdout, 600))
				}
				return
			}
			app := unused.NewRemoveUnusedImportApp(dir)
			results := app.Analysis()
			app.Refactoring(results)
		}
		run()
		if cliFailed != "" {
			res.Violations = append(res.Violations, engine.V("cli", "exit-status", "%s", cliFailed))
			return res
		}
		var outs []string
		after := map[string]string{}
		for _, f := range fs {
			b, err := os.ReadFile(filepath.Join(dir, f.name))
			if err != nil {
				res.Violations = append(res.Violations, engine.V("files", "unreadable", "%s: %v", f.name, err))
				continue
			}
			after[f.name] = string(b)
			outs = append(outs, engine.Hash(string(b)))
			if why := f.accept(string(b)); why != "" {
				kind := "kept-line-damaged"
				if strings.Contains(why, "was not removed") {
					kind = "unused-import-kept"
					if len(fs) > 1 {
						kind = "unused-import-kept-in-multi-file-project"
					}
				} else if len(fs) > 1 {
					kind = "kept-line-damaged-in-multi-file-project"
				}
				res.Violations = append(res.Violations, engine.V("removal", kind, "%s: %s\n--- original\n%s\n--- after removal\n%s", f.name, why, f.content(), string(b)))
			}
		}
		// a second run changes nothing
		run()
		for _, f := range fs {
			b, _ := os.ReadFile(filepath.Join(dir, f.name))
			if string(b) != after[f.name] {
				if len(res.Violations) == 0 {
					res.Violations = append(res.Violations, engine.V("idempotence", "second-run-changes-file", "%s changed again on the second run\n--- after first\n%s\n--- after second\n%s", f.name, after[f.name], string(b)))
				}
			}
		}
		res.Outcome = strings.Join(outs, ",")
		return res
	}
}

func init() {
	engine.Register(&engine.Spec{
		ID:    "C06",
		Title: "Unused-import removal deletes nothing but unused single-type imports",
		Rule: "X1 over directories of 1..3 Java files; per file 0..4 imports of 12 kinds (used as field type, annotation, creation, static receiver, catch type, generic argument, throws; unused at any position incl. adjacent; wildcard; static used/unused) x blank/comment lines between imports x package line present/absent; deviation-bounded; followed by a second run. " +
			"Non-trivial = some file has an unused import. Distinct = distinct directory content.",
		Assumptions: []string{
			"an unused static import may or may not be deleted (the statement speaks of single-type imports)",
			"one import per line; references inside comments do not count",
		},
		Sections: []engine.Section{{Name: "directories", KQuick: 3, KThor: 4, Gen: c06Gen}},
	})
}
