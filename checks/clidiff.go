package checks

import (
	"regexp"
	"encoding/json"
	"fmt"
	"os"
	"path/filepath"
	"sort"
	"strconv"
	"strings"

	"github.com/modernizing/coca/pkg/application/api"
	"github.com/modernizing/coca/pkg/application/arch"
	"github.com/modernizing/coca/pkg/application/arch/tequila"
	"github.com/modernizing/coca/pkg/application/call"
	"github.com/modernizing/coca/pkg/application/concept"
	"github.com/modernizing/coca/pkg/application/count"
	"github.com/modernizing/coca/pkg/application/evaluate"
	"github.com/modernizing/coca/pkg/application/evaluate/evaluator"
	"github.com/modernizing/coca/pkg/application/rcall"
	"github.com/modernizing/coca/pkg/application/tbs"
	"github.com/modernizing/coca/pkg/application/todo"
	"github.com/modernizing/coca/pkg/application/todo/astitodo"
	"github.com/modernizing/coca/pkg/adapter/cocafile"
	"github.com/modernizing/coca/pkg/domain/api_domain"
	"github.com/modernizing/coca/pkg/domain/core_domain"
	"github.com/modernizing/coca/pkg/infrastructure/string_helper"
	"verif/engine"
	jg "verif/javagen"
)

// CLI sections: the same inputs through the real `coca <command>` in child processes. The reports the
// commands write (coca_reporter/*.json|dot|csv) and the tables they print must carry what the
// application-level entry points return for the same input (which the other sections compare with the
// reference models). This binds the checks to cmd/*.go as well.

// tableRows extracts the rows of tablewriter tables ("| a | b |") from stdout.
func tableRows(stdout string) [][]string {
	var rows [][]string
	for _, l := range strings.Split(stdout, "\n") {
		t := strings.TrimSpace(l)
		if !strings.HasPrefix(t, "|") || strings.HasPrefix(t, "|--") || strings.HasPrefix(t, "+-") {
			continue
		}
		cells := strings.Split(strings.Trim(t, "|"), "|")
		for i := range cells {
			cells[i] = strings.TrimSpace(cells[i])
		}
		rows = append(rows, cells)
	}
	return rows
}

func hasRow(rows [][]string, want ...string) bool {
	for _, r := range rows {
		if len(r) != len(want) {
			continue
		}
		ok := true
		for i := range want {
			if r[i] != want[i] {
				ok = false
			}
		}
		if ok {
			return true
		}
	}
	return false
}

func writeReporter(root, name string, v interface{}) {
	os.MkdirAll(filepath.Join(root, "coca_reporter"), 0o755)
	b, _ := json.MarshalIndent(v, "", "\t")
	os.WriteFile(filepath.Join(root, "coca_reporter", name), b, 0o644)
}

func cliFail(res *engine.Result, what string, r cliResult) bool {
	if r.Exit != 0 {
		res.Violations = append(res.Violations, engine.V("cli", "exit-status", "coca %s exited %d: %s", what, r.Exit, trimTo(r.Stderr+r.Stdout, 500)))
		return true
	}
	return false
}

// ---- C03 / C04 / C18a: abstract models through `coca call`, `coca rcall`, `coca count` ---------------------

func cliGraphGen(c *engine.C) engine.Case {
	// zero-deviation model: a cycle m0 -> m1 -> m2 -> m0 over two packages, root m0
	g := buildGraph(c, graphOpts{N: 3, MaxMult: 2, Extras: true, DistMenu: true, DefaultDist: 2, DefaultCycle: true})
	ri := c.Choose(4, "root")
	root := "p.A.absent"
	if ri < 3 {
		root = g.Names[ri]
	}
	lookup := c.Bool("lookup")
	remove := []string{"", "p.", "q.", "A.", "p.A.m"}[c.Choose(5, "remove-text")]
	g.Model.FilePaths = []string{"per-class", "shared", ""}[c.Choose(3, "source-files")]
	top := c.Choose(3, "count-top")
	return func() engine.Result {
		deps := g.Model.ToDeps()
		res := engine.Result{InputKey: g.Model.String() + root + fmt.Sprint(lookup, top, remove, g.Model.FilePaths), Input: map[string]interface{}{"model": strings.Split(strings.TrimSpace(g.Model.String()), "\n"), "root": root, "lookup": lookup, "remove": remove}, Nontrivial: true}
		cwd, cleanup := materialise(nil)
		defer cleanup()
		writeReporter(cwd, "deps.json", deps)
		var out []string
		// call
		args := []string{"call", "-c", root}
		if lookup {
			args = append(args, "-l")
		}
		if remove != "" {
			args = append(args, "-r", remove)
		}
		if r := runCLI(cwd, args...); !cliFail(&res, "call", r) {
			b, _ := os.ReadFile(filepath.Join(cwd, "coca_reporter", "call.dot"))
			if engine.Reset != nil {
				engine.Reset()
			}
			want := call.NewCallGraph().Analysis(root, deps, lookup)
			if remove != "" {
				want = strings.ReplaceAll(want, remove, "") // -r deletes the text wherever it occurs
			}
			if string(b) != want {
				res.Violations = append(res.Violations, engine.V("cli-call", "call.dot-differs", "coca %v wrote\n%s\nCallGraph.Analysis returns\n%s", args, string(b), want))
			}
			out = append(out, "call "+engine.Hash(string(b)))
		}
		// rcall
		rargs := []string{"rcall", "-c", root}
		if remove != "" {
			rargs = append(rargs, "-r", remove)
		}
		if r := runCLI(cwd, rargs...); !cliFail(&res, "rcall", r) {
			b, _ := os.ReadFile(filepath.Join(cwd, "coca_reporter", "rcall.dot"))
			if engine.Reset != nil {
				engine.Reset()
			}
			var wantMap map[string][]string
			want := rcall.NewRCallGraph().Analysis(root, deps, func(m map[string][]string) { wantMap = m })
			if remove != "" {
				want = strings.ReplaceAll(want, remove, "")
			}
			if string(b) != want {
				res.Violations = append(res.Violations, engine.V("cli-rcall", "rcall.dot-differs", "coca %v wrote\n%s\nRCallGraph.Analysis returns\n%s", rargs, string(b), want))
			}
			var gotMap map[string][]string
			readReport(cwd, "rcallmap.json", &gotMap)
			if canonMap(gotMap) != canonMap(wantMap) {
				res.Violations = append(res.Violations, engine.V("cli-rcall", "rcallmap-differs", "rcallmap.json\n%s\nwant\n%s", canonMap(gotMap), canonMap(wantMap)))
			}
			out = append(out, "rcall "+engine.Hash(string(b)))
		}
		// count
		cargs := []string{"count"}
		cm := count.BuildCallMap(deps)
		pl := string_helper.SortWord(cm)
		n := len(pl)
		if top > 0 && top <= n {
			cargs = append(cargs, "-t", strconv.Itoa(top))
			n = top
		}
		if r := runCLI(cwd, cargs...); !cliFail(&res, "count", r) {
			rows := tableRows(r.Stdout)
			var body [][]string
			for _, row := range rows {
				if len(row) == 2 && row[0] != "REFS COUNT" {
					body = append(body, row)
				}
			}
			if len(body) != n {
				res.Violations = append(res.Violations, engine.V("cli-count", "row-count", "coca %v lists %d methods, BuildCallMap has %d (top %d)\n%s", cargs, len(body), len(pl), top, r.Stdout))
			}
			for i := 0; i < n && i < len(body); i++ {
				if body[i][0] != strconv.Itoa(pl[i].Value) || body[i][1] != pl[i].Key {
					res.Violations = append(res.Violations, engine.V("cli-count", "row", "row %d is %v, want [%d %s]", i, body[i], pl[i].Value, pl[i].Key))
					break
				}
			}
			out = append(out, fmt.Sprintf("count %d rows", len(body)))
		}
		res.Outcome = strings.Join(out, "\n")
		return res
	}
}

func canonMap(m map[string][]string) string {
	var ks []string
	for k := range m {
		ks = append(ks, k)
	}
	sort.Strings(ks)
	var sb strings.Builder
	for _, k := range ks {
		v := append([]string{}, m[k]...)
		sort.Strings(v)
		sb.WriteString(k + " <- " + strings.Join(v, ",") + "\n")
	}
	return sb.String()
}

// ---- C13: abstract models through `coca arch` ----------------------------------------------------------------

func cliArchGen(c *engine.C) engine.Case {
	m := c13Build(c, 3, true)
	sel := engine.PickTag(c, "include", "all", "one-package", "one-type", "nothing")
	merge := engine.PickTag(c, "merge", "none", "header", "package", "header-and-package")
	return func() engine.Result {
		res := engine.Result{InputKey: strings.Join(m.desc, ";") + fmt.Sprint(m.types) + sel + merge, Input: map[string]interface{}{"types": fmt.Sprint(m.types), "relations": m.desc, "include": sel, "merge": merge}, Nontrivial: len(m.E) > 0}
		cwd, cleanup := materialise(nil)
		defer cleanup()
		writeReporter(cwd, "deps.json", m.deps)
		writeReporter(cwd, "identify.json", m.deps)
		// the report directory already holds a (much longer) arch.dot from an earlier run on another project
		var old strings.Builder
		old.WriteString("digraph  {\n")
		for i := 0; i < 400; i++ {
			old.WriteString(fmt.Sprintf("\tsubgraph cluster_old%d {\n\t\tlabel=\"old%d\";\n\t\tn%d[label=\"Stale%d\",shape=box];\n\t}\n", i, i, i, i))
		}
		old.WriteString("}\n")
		os.WriteFile(filepath.Join(cwd, "coca_reporter", "arch.dot"), []byte(old.String()), 0o644)
		filter := ""
		switch sel {
		case "one-package":
			filter = m.types[0].Pkg + "."
		case "one-type":
			filter = m.types[len(m.types)-1].Full()
		case "nothing":
			filter = "zzz"
		}
		args := []string{"arch"}
		if filter != "" {
			args = append(args, "-x", filter)
		}
		g := arch.NewArchApp().Analysis(m.deps, core_domain.BuildIdentifierMap(m.deps))
		switch merge {
		case "header":
			args = append(args, "-H")
			g = g.MergeHeaderFile(tequila.MergeHeaderFunc)
		case "package":
			args = append(args, "-P")
			g = g.MergeHeaderFile(tequila.MergePackageFunc)
		case "header-and-package":
			// both options: the package merge of the header merge
			args = append(args, "-H", "-P")
			g = g.MergeHeaderFile(tequila.MergeHeaderFunc).MergeHeaderFile(tequila.MergePackageFunc)
		}
		r := runCLI(cwd, args...)
		if cliFail(&res, "arch", r) {
			return res
		}
		b, err := os.ReadFile(filepath.Join(cwd, "coca_reporter", "arch.dot"))
		if err != nil {
			res.Violations = append(res.Violations, engine.V("cli-arch", "no-report", "arch.dot not written"))
			return res
		}
		gotPaths, gotEdges, err := clusterPaths(string(b))
		if err != nil {
			res.Violations = append(res.Violations, engine.V("cli-arch", "not-well-formed", "arch.dot does not parse: %v\n%s", err, string(b)))
			return res
		}
		wantPaths, wantEdges, _ := clusterPaths("di" + g.ToMapDot(func(k string) bool { return strings.Contains(k, filter) }).String())
		canon := func(paths map[string]string, edges []Edge) string {
			var ns, es []string
			for _, p := range paths {
				ns = append(ns, p)
			}
			for _, e := range edges {
				es = append(es, paths[e.From]+"->"+paths[e.To])
			}
			sort.Strings(ns)
			sort.Strings(es)
			return "nodes " + strings.Join(ns, ",") + "\nedges " + strings.Join(es, ",")
		}
		res.Outcome = canon(gotPaths, gotEdges)
		if canon(gotPaths, gotEdges) != canon(wantPaths, wantEdges) {
			res.Violations = append(res.Violations, engine.V("cli-arch", "arch.dot-differs", "coca %v drew\n%s\nthe application-level graph is\n%s", args, canon(gotPaths, gotEdges), canon(wantPaths, wantEdges)))
		}
		return res
	}
}

// ---- C12 (+ C03 Size column): controller projects through `coca analysis` + `coca api` ---------------------

func cliApiGen(c *engine.C) engine.Case {
	layout, _ := pickLayout(c)
	n := []int{2, 1, 3}[c.Choose(3, "classes")]
	var files []FileSpec
	for i := 0; i < n; i++ {
		cls, _ := c12Class(c, i)
		// handlers call a service so that the API chains have edges
		files = append(files, FileSpec{Path: "src/" + cls.Name + ".java", Content: jgPrintWithCalls(cls, layout)})
	}
	files = append(files, FileSpec{Path: "src/Svc.java", Content: "package web;\n\npublic class Svc {\n    public void work() {\n        deeper();\n    }\n\n    public void deeper() {\n    }\n}\n"})
	// the request-body types, so that apis.json carries their fields as method parameters
	files = append(files, FileSpec{Path: "src/Book.java", Content: "package web;\n\npublic class Book {\n    private String isbn;\n    private String title;\n}\n"},
		FileSpec{Path: "src/Order.java", Content: "package web;\n\npublic class Order {\n    private Long id;\n}\n"})
	aggregate := c.Choose(3, "aggregate")
	sortFlag := c.Bool("sort")
	withoutForce := c.Bool("without-force-and-without-cached-apis.json")
	remove := []string{"", "web.", "web.AlphaCtl.,web.", "web.,web.AlphaCtl.", "web.,web."}[c.Choose(5, "remove-names")]
	// the report directory already holds the reports of an earlier version of the project (one more controller)
	earlier := c.Bool("reports-of-an-earlier-version-present") && !withoutForce
	return func() engine.Result {
		res := engine.Result{InputKey: filesKey(files) + fmt.Sprint(aggregate, sortFlag, withoutForce, remove, earlier), Input: map[string]interface{}{"files": filesInput(files), "without_force": withoutForce, "remove": remove, "reports_of_an_earlier_version_present": earlier}, Nontrivial: true}
		if why := validateJava(files); why != "" {
			res.Skipped = why
			return res
		}
		cwd, cleanup := materialise(files)
		defer cleanup()
		if earlier {
			old := filepath.Join(cwd, "src", "EarlierCtl.java")
			os.WriteFile(old, []byte("package web;\n\nimport org.springframework.web.bind.annotation.*;\n\n@RestController\n@RequestMapping(\"/earlier\")\npublic class EarlierCtl {\n    @GetMapping(\"/gone\")\n    public String gone() {\n        new Svc().work();\n        return \"\";\n    }\n}\n"), 0o644)
			if r := runCLI(cwd, "analysis", "-p", "src"); cliFail(&res, "analysis (earlier version)", r) {
				return res
			}
			if r := runCLI(cwd, "api", "-p", "src", "-c", "-f"); cliFail(&res, "api (earlier version)", r) {
				return res
			}
			os.Remove(old)
		}
		if r := runCLI(cwd, "analysis", "-p", "src"); cliFail(&res, "analysis", r) {
			return res
		}
		var idents, deps []core_domain.CodeDataStruct
		readReport(cwd, "identify.json", &idents)
		readReport(cwd, "deps.json", &deps)
		identMap := core_domain.BuildIdentifierMap(idents)
		diMap := core_domain.BuildDIMap(idents, identMap)
		// application level, from the same reports
		if engine.Reset != nil {
			engine.Reset()
		}
		wantApis := new(api.JavaApiApp).AnalysisPath(filepath.Join(cwd, "src"), deps, identMap, diMap)
		prefix := ""
		if aggregate == 1 && len(wantApis) > 0 {
			prefix = wantApis[0].Uri
		} else if aggregate == 2 {
			prefix = "/none"
		}
		filtered := api_domain.FilterApiByPrefix(prefix, wantApis)
		wantDot, wantCounts := call.NewCallGraph().AnalysisByFiles(filtered, deps, diMap)
		if sortFlag {
			api_domain.SortAPIs(wantCounts)
		}
		// -r: the listed names are deleted wherever they occur; where two names match at one place the one
		// given first on the command line wins
		strip := func(text string) string {
			if remove == "" {
				return text
			}
			var alts []string
			for _, n := range strings.Split(remove, ",") {
				alts = append(alts, regexp.QuoteMeta(n))
			}
			return regexp.MustCompile(strings.Join(alts, "|")).ReplaceAllString(text, "")
		}
		for i := range wantCounts {
			wantCounts[i].Caller = strip(wantCounts[i].Caller)
		}
		args := []string{"api", "-p", "src", "-c"}
		if !withoutForce {
			args = append(args, "-f")
		}
		if remove != "" {
			args = append(args, "-r", remove)
		}
		if prefix != "" {
			args = append(args, "-a", prefix)
		}
		if sortFlag {
			args = append(args, "-s")
		}
		r := runCLI(cwd, args...)
		if cliFail(&res, "api", r) {
			return res
		}
		var gotApis []api_domain.RestAPI
		readReport(cwd, "apis.json", &gotApis)
		ka := func(as []api_domain.RestAPI) string {
			var rows []string
			for _, a := range as {
				var ps []string
				for k, v := range a.MethodParams {
					ps = append(ps, k+":"+v)
				}
				sort.Strings(ps)
				rows = append(rows, fmt.Sprintf("%s %s %s %s.%s.%s {%s}", a.HttpMethod, a.Uri, a.RequestBodyClass, a.PackageName, a.ClassName, a.MethodName, strings.Join(ps, ",")))
			}
			return strings.Join(rows, "\n")
		}
		// apis.json is written with paths relative to cwd: compare on the entries, which carry no path
		if ka(gotApis) != ka(wantApis) {
			res.Violations = append(res.Violations, engine.V("cli-api", "apis.json-differs", "apis.json\n%s\nJavaApiApp.AnalysisPath returns\n%s", ka(gotApis), ka(wantApis)))
		}
		rows := tableRows(r.Stdout)
		var body [][]string
		for _, row := range rows {
			if len(row) == 4 && row[0] != "SIZE" {
				body = append(body, row)
			}
		}
		if len(body) != len(wantCounts) {
			res.Violations = append(res.Violations, engine.V("cli-api", "count-rows", "coca %v prints %d API rows, %d expected\n%s", args, len(body), len(wantCounts), r.Stdout))
		}
		for i := 0; i < len(body) && i < len(wantCounts); i++ {
			w := wantCounts[i]
			if body[i][0] != strconv.Itoa(w.Size) || body[i][1] != w.HTTPMethod || body[i][2] != w.URI || body[i][3] != w.Caller {
				if sortFlag {
					// ties in the sort key may appear in any order: fall back to set comparison
					if !hasRow(body, strconv.Itoa(w.Size), w.HTTPMethod, w.URI, w.Caller) {
						res.Violations = append(res.Violations, engine.V("cli-api", "count-row", "row [%d %s %s %s] missing from the -c table: %v", w.Size, w.HTTPMethod, w.URI, w.Caller, body))
					}
					continue
				}
				res.Violations = append(res.Violations, engine.V("cli-api", "count-row", "row %d is %v, want [%d %s %s %s]", i, body[i], w.Size, w.HTTPMethod, w.URI, w.Caller))
			}
		}
		if sortFlag {
			for i := 1; i < len(body); i++ {
				a, _ := strconv.Atoi(body[i-1][0])
				b, _ := strconv.Atoi(body[i][0])
				if a > b {
					res.Violations = append(res.Violations, engine.V("cli-api", "sort-order", "-s table not in non-decreasing size order: %v", body))
					break
				}
			}
		}
		// api.csv carries the same rows
		csvb, _ := os.ReadFile(filepath.Join(cwd, "coca_reporter", "api.csv"))
		for _, w := range wantCounts {
			if !strings.Contains(string(csvb), fmt.Sprintf("%d,%s,%s,%s", w.Size, w.HTTPMethod, w.URI, w.Caller)) && !strings.Contains(strings.ReplaceAll(string(csvb), " ", ""), fmt.Sprintf("%d,%s,%s,%s", w.Size, w.HTTPMethod, w.URI, w.Caller)) {
				res.Violations = append(res.Violations, engine.V("cli-api", "api.csv-row", "api.csv lacks the row %d,%s,%s,%s:\n%s", w.Size, w.HTTPMethod, w.URI, w.Caller, string(csvb)))
				break
			}
		}
		// api.dot is the chain graph of the listed APIs, with the -r names deleted
		dotb, _ := os.ReadFile(filepath.Join(cwd, "coca_reporter", "api.dot"))
		if string(dotb) != strip(wantDot) {
			res.Violations = append(res.Violations, engine.V("cli-api", "api.dot-differs", "coca %v wrote api.dot\n%s\nAnalysisByFiles (with the -r names deleted) returns\n%s", args, string(dotb), strip(wantDot)))
		}
		res.Outcome = ka(gotApis) + "\n" + fmt.Sprint(body)
		return res
	}
}

func jgPrint(cls *jg.Class, layout jg.Layout) string { return jg.Print(cls, layout) }

// jgPrintWithCalls prints a controller class whose handlers call new Svc().work(), so that API chains have edges
func jgPrintWithCalls(cls *jg.Class, layout jg.Layout) string {
	for _, m := range cls.Methods() {
		if !m.NoBody {
			m.Body = append([]jg.Stmt{jg.St(jg.T("new Svc().work();"))}, m.Body...)
		}
	}
	return jg.Print(cls, layout)
}

// ---- C11 / C17 / C18: projects through `coca tbs`, `coca todo`, `coca evaluate`, `coca concept` -------------

func cliTbsGen(c *engine.C) engine.Case {
	layout, _ := pickLayout(c)
	ak := c11AnnKinds[c.Choose(len(c11AnnKinds), "ann")]
	nt := []int{2, 0, 1, 3}[c.Choose(4, "len")]
	var tokens []string
	for i := 0; i < nt; i++ {
		tokens = append(tokens, c11Tokens[(c.Choose(len(c11Tokens), fmt.Sprintf("t%d", i))+3*i)%len(c11Tokens)])
	}
	loc := c.Choose(3, "loc")
	sortFlag := c.Bool("sort")
	cm := c11MakeMethod("testIt", ak, tokens)
	unit := c11Unit{methods: []*c11Method{cm}}
	name := "FooTest"
	switch loc {
	case 0:
		unit.path, unit.isTest = "FooTest.java", true
	case 1:
		name = "FooSpec"
		unit.path, unit.isTest = "src/test/java/p/FooSpec.java", true
	case 2:
		name = "Foo"
		unit.path = "src/main/java/p/Foo.java"
	}
	unit.cls = c11Class(name, unit.methods)
	return func() engine.Result {
		files := []FileSpec{{Path: unit.path, Content: jgPrint(unit.cls, layout)}}
		res := engine.Result{InputKey: filesKey(files) + fmt.Sprint(sortFlag), Input: filesInput(files), Nontrivial: true}
		if why := validateJava(files); why != "" {
			res.Skipped = why
			return res
		}
		cwd, cleanup := materialise(files)
		defer cleanup()
		args := []string{"tbs", "-p", "."}
		if sortFlag {
			args = append(args, "-s")
		}
		r := runCLI(cwd, args...)
		if cliFail(&res, "tbs", r) {
			return res
		}
		if engine.Reset != nil {
			engine.Reset()
		}
		testFiles := cocafile.GetJavaTestFiles(cwd)
		tid := identPass(testFiles)
		want := tbs.NewTbsApp().AnalysisPath(fullPass(tid, testFiles), core_domain.BuildIdentifierMap(tid))
		var got []tbs.TestBadSmell
		if sortFlag {
			groups := map[string][]tbs.TestBadSmell{}
			readReport(cwd, "tbs.json", &groups)
			for k, g := range groups {
				for _, x := range g {
					if x.Type != k {
						res.Violations = append(res.Violations, engine.V("cli-tbs", "wrong-group", "finding of type %s under group %s", x.Type, k))
					}
					got = append(got, x)
				}
			}
		} else {
			readReport(cwd, "tbs.json", &got)
		}
		key := func(l []tbs.TestBadSmell) string {
			var rows []string
			for _, x := range l {
				rows = append(rows, fmt.Sprintf("%s|%s|%d", x.Type, filepath.Base(x.FileName), x.Line))
			}
			sort.Strings(rows)
			return strings.Join(rows, "\n")
		}
		res.Outcome = key(got)
		if key(got) != key(want) {
			res.Violations = append(res.Violations, engine.V("cli-tbs", "tbs.json-differs", "coca %v wrote\n%s\nTbsApp.AnalysisPath returns\n%s", args, key(got), key(want)))
		}
		if !strings.Contains(r.Stdout, fmt.Sprintf("Test Bad Smell nums:  %d", len(want))) {
			res.Violations = append(res.Violations, engine.V("cli-tbs", "count-line", "stdout does not announce %d findings: %s", len(want), trimTo(r.Stdout, 300)))
		}
		rows := tableRows(r.Stdout)
		for _, w := range want {
			found := false
			for _, row := range rows {
				if len(row) == 3 && row[0] == w.Type && row[2] == strconv.Itoa(w.Line) {
					found = true
				}
			}
			if !found && len(want) <= 20 {
				res.Violations = append(res.Violations, engine.V("cli-tbs", "table-row", "table lacks the row for %s line %d:\n%s", w.Type, w.Line, r.Stdout))
				break
			}
		}
		return res
	}
}

func cliTodoGen(c *engine.C) engine.Case {
	toks := c17Tokens()
	n := []int{2, 1, 3}[c.Choose(3, "len")]
	var lines []string
	prevKind := ""
	for i := 0; i < n; i++ {
		// defaults: a block TODO followed by a hash TODO, so that one deviation puts two todos on one line
		tk := toks[(c.Choose(len(toks), fmt.Sprintf("t%d", i))+i+2)%len(toks)]
		if tk.Kind == "unterminated" {
			tk = toks[0]
		}
		// two comments starting on one line (never after a line / hash comment, which swallows the rest of its line)
		if i > 0 && (prevKind == "block" || prevKind == "code" || prevKind == "literal") && !strings.Contains(lines[len(lines)-1], "\n") && c.Bool(fmt.Sprintf("j%d-same-line", i)) {
			lines[len(lines)-1] += " " + tk.Text
		} else {
			lines = append(lines, tk.Text)
		}
		prevKind = tk.Kind
	}
	ext := c.Choose(6, "ext")
	return func() engine.Result {
		name, filt := "a.java", ".java"
		switch ext {
		case 1:
			name = "a.py"
		case 2:
			filt = ".java,.py"
			name = "a.py"
		case 3:
			// an extension with two dots
			name, filt = "a.spec.ts", ".spec.ts"
		case 4:
			name, filt = "a.spec.ts", ".spec.ts,.ts"
		case 5:
			// an extension given without its dot
			filt = "java"
		}
		files := []FileSpec{{Path: "src/" + name, Content: strings.Join(lines, "\n") + "\n"}, {Path: "src/other.kt", Content: "// TODO: kotlin file\n"}}
		res := engine.Result{InputKey: filesKey(files) + filt, Input: map[string]interface{}{"files": filesInput(files), "ext": filt}, Nontrivial: true}
		cwd, cleanup := materialise(files)
		defer cleanup()
		r := runCLI(cwd, "todo", "-p", "src", "-e", filt)
		if cliFail(&res, "todo", r) {
			return res
		}
		want := todo.NewTodoApp().AnalysisPath(filepath.Join(cwd, "src"), strings.Split(filt, ","))
		var got []*astitodo.TODO
		readReport(cwd, "simple-todos.json", &got)
		key := func(l []*astitodo.TODO) string {
			var rows []string
			for _, x := range l {
				rows = append(rows, fmt.Sprintf("%s:%d (%s) %q", filepath.Base(x.Filename), x.Line, x.Assignee, x.Message))
			}
			return strings.Join(rows, "\n")
		}
		res.Outcome = key(got)
		if key(got) != key(want) {
			res.Violations = append(res.Violations, engine.V("cli-todo", "simple-todos.json-differs", "coca todo -e %s wrote\n%s\nTodoApp.AnalysisPath returns\n%s", filt, key(got), key(want)))
		}
		if !strings.Contains(r.Stdout, fmt.Sprintf("Todos Count %d", len(want))) {
			res.Violations = append(res.Violations, engine.V("cli-todo", "count-line", "stdout does not announce %d todos: %s", len(want), trimTo(r.Stdout, 300)))
		}
		rows := tableRows(r.Stdout)
		for _, w := range want {
			found := false
			for _, row := range rows {
				if len(row) == 4 && row[3] == strconv.Itoa(w.Line) && row[2] == w.Assignee {
					found = true
				}
			}
			if !found {
				res.Violations = append(res.Violations, engine.V("cli-todo", "table-row", "table lacks the row for line %d (assignee %q):\n%s", w.Line, w.Assignee, r.Stdout))
				break
			}
		}
		return res
	}
}

func cliEvaluateGen(c *engine.C) engine.Case {
	classes, _, layout := c18BuildClasses(c)
	return func() engine.Result {
		var files []FileSpec
		for _, cls := range classes {
			files = append(files, FileSpec{Path: c18Path(cls), Content: jgPrint(cls, layout)})
		}
		res := engine.Result{InputKey: filesKey(files), Input: filesInput(files), Nontrivial: true}
		if why := validateJava(files); why != "" {
			res.Skipped = why
			return res
		}
		cwd, cleanup := materialise(files)
		defer cleanup()
		if r := runCLI(cwd, "analysis", "-p", "src"); cliFail(&res, "analysis", r) {
			return res
		}
		var idents, deps []core_domain.CodeDataStruct
		readReport(cwd, "identify.json", &idents)
		readReport(cwd, "deps.json", &deps)
		r := runCLI(cwd, "evaluate")
		if cliFail(&res, "evaluate", r) {
			return res
		}
		want := evaluate.NewEvaluateAnalyser().Analysis(deps, idents)
		var got evaluator.EvaluateModel
		readReport(cwd, "evaluate.json", &got)
		ks := func(m evaluator.EvaluateModel) string {
			items := append([]string{}, m.Nullable.Items...)
			sort.Strings(items)
			return fmt.Sprintf("%d %d %d %d %v", m.Summary.ClassCount, m.Summary.MethodCount, m.Summary.StaticMethodCount, m.Summary.UtilsCount, items)
		}
		res.Outcome = ks(got)
		if ks(got) != ks(want) {
			res.Violations = append(res.Violations, engine.V("cli-evaluate", "evaluate.json-differs", "evaluate.json: %s; Analyser.Analysis: %s", ks(got), ks(want)))
		}
		rows := tableRows(r.Stdout)
		mc, cc := strconv.Itoa(want.Summary.MethodCount), strconv.Itoa(want.Summary.ClassCount)
		if want.Summary.MethodCount > 0 && want.Summary.ClassCount > 0 {
			checks := [][]string{
				{"Nullable / Return Null", strconv.Itoa(len(want.Nullable.Items)), "Method", mc},
				{"Utils", strconv.Itoa(want.Summary.UtilsCount), "Class", cc},
				{"Static Method", strconv.Itoa(want.Summary.StaticMethodCount), "Method", mc},
			}
			for _, w := range checks {
				ok := false
				for _, row := range rows {
					if len(row) >= 4 && row[0] == w[0] && row[1] == w[1] && row[2] == w[2] && row[3] == w[3] {
						ok = true
					}
				}
				if !ok {
					res.Violations = append(res.Violations, engine.V("cli-evaluate", "table-row", "table lacks %v:\n%s", w, r.Stdout))
				}
			}
		}
		// concept
		rc := runCLI(cwd, "concept")
		if !cliFail(&res, "concept", rc) {
			wc := concept.NewConceptAnalyser().Analysis(&deps)
			crows := tableRows(rc.Stdout)
			var body [][]string
			for _, row := range crows {
				if len(row) == 2 && row[0] != "WORDS" {
					body = append(body, row)
				}
			}
			if len(body) != len(wc) {
				res.Violations = append(res.Violations, engine.V("cli-concept", "row-count", "coca concept lists %d words, the analyser returns %d", len(body), len(wc)))
			}
			for i := 0; i < len(body) && i < len(wc); i++ {
				if body[i][0] != wc[i].Key || body[i][1] != strconv.Itoa(wc[i].Value) {
					res.Violations = append(res.Violations, engine.V("cli-concept", "row", "row %d is %v, want [%s %d]", i, body[i], wc[i].Key, wc[i].Value))
					break
				}
			}
		}
		return res
	}
}
