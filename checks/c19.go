package checks

import (
	"fmt"
	"path/filepath"
	"strings"

	"github.com/modernizing/coca/pkg/application/deps"
	"github.com/modernizing/coca/pkg/domain/core_domain"
	"verif/engine"
)

type expDep struct {
	Group, Artifact, Scope string
	Optional               bool // notation the statement does not require to be extracted
}

// the fourth group id extends the first: an import below com.alpha.ext contains both group ids
var c19Groups = []string{"com.alpha", "org.beta.core", "net.gamma", "com.alpha.ext"}

func depsString(ds []core_domain.CodeDependency) string {
	var r []string
	for _, d := range ds {
		r = append(r, fmt.Sprintf("%s:%s[%s]", d.GroupId, d.ArtifactId, d.Scope))
	}
	return strings.Join(r, " ")
}

func compareDeps(clause string, got []core_domain.CodeDependency, want []expDep) []engine.Violation {
	var vs []engine.Violation
	gi := 0
	for _, w := range want {
		if gi < len(got) && got[gi].GroupId == w.Group && got[gi].ArtifactId == w.Artifact {
			if got[gi].Scope != w.Scope {
				vs = append(vs, engine.V(clause, "scope", "dependency %s:%s has scope/configuration %q, declared %q", w.Group, w.Artifact, got[gi].Scope, w.Scope))
			}
			gi++
			continue
		}
		if w.Optional {
			continue
		}
		kind := "missing-or-out-of-order"
		if gi < len(got) && strings.Trim(got[gi].GroupId, "\"'") == w.Group {
			kind = "quotes-not-stripped"
		}
		vs = append(vs, engine.V(clause, kind, "declared dependency %s:%s not extracted at its position; extracted: %s", w.Group, w.Artifact, depsString(got)))
		return vs
	}
	if gi < len(got) {
		vs = append(vs, engine.V(clause, "extra", "extracted %s:%s which is not declared in the dependencies block (all: %s)", got[gi].GroupId, got[gi].ArtifactId, depsString(got)))
	}
	return vs
}

// ---- pom.xml ----------------------------------------------------------------------------------------

func c19Pom(c *engine.C, pfx string) (string, []expDep) {
	var sb strings.Builder
	// the order in which the group ids are handed out to the entries; optionally com.alpha.ext directly behind com.alpha
	groupOrder := c19Groups
	if c.Bool(pfx + "extending-group-directly-behind-its-parent") {
		groupOrder = []string{c19Groups[0], c19Groups[3], c19Groups[1], c19Groups[2]}
	}
	sb.WriteString("<?xml version=\"1.0\" encoding=\"UTF-8\"?>\n")
	if c.Bool(pfx + "namespaces") {
		sb.WriteString("<project xmlns=\"http://maven.apache.org/POM/4.0.0\" xmlns:xsi=\"http://www.w3.org/2001/XMLSchema-instance\" xsi:schemaLocation=\"http://maven.apache.org/POM/4.0.0 http://maven.apache.org/xsd/maven-4.0.0.xsd\">\n")
	} else {
		sb.WriteString("<project>\n")
	}
	sb.WriteString("  <modelVersion>4.0.0</modelVersion>\n  <groupId>my.app</groupId>\n  <artifactId>app</artifactId>\n")
	before := engine.PickTag(c, pfx+"before", "nothing", "properties", "dependencyManagement", "build-plugins", "build-javadoc-links")
	after := engine.PickTag(c, pfx+"after", "nothing", "dependencyManagement", "build-plugins", "properties", "build-javadoc-links")
	section := func(kind string) {
		switch kind {
		case "properties":
			sb.WriteString("  <properties>\n    <java.version>17</java.version>\n    <dep.version>1.2.3</dep.version>\n  </properties>\n")
		case "dependencyManagement":
			sb.WriteString("  <dependencyManagement>\n    <dependencies>\n      <dependency>\n        <groupId>managed.group</groupId>\n        <artifactId>bom</artifactId>\n        <version>1</version>\n        <type>pom</type>\n        <scope>import</scope>\n      </dependency>\n    </dependencies>\n  </dependencyManagement>\n")
		case "build-plugins":
			sb.WriteString("  <build>\n    <plugins>\n      <plugin>\n        <groupId>plugin.group</groupId>\n        <artifactId>plug</artifactId>\n        <dependencies>\n          <dependency>\n            <groupId>plugin.dep</groupId>\n            <artifactId>pd</artifactId>\n          </dependency>\n        </dependencies>\n      </plugin>\n    </plugins>\n  </build>\n")
		case "build-javadoc-links":
			// element names that an HTML-minded reader treats as void elements (link, param, meta)
			sb.WriteString("  <build>\n    <plugins>\n      <plugin>\n        <groupId>org.apache.maven.plugins</groupId>\n        <artifactId>maven-javadoc-plugin</artifactId>\n        <configuration>\n          <links>\n            <link>https://docs.example.org/api/</link>\n          </links>\n          <param>-Xdoclint:none</param>\n          <meta>x &amp; y</meta>\n        </configuration>\n      </plugin>\n    </plugins>\n  </build>\n")
		}
	}
	section(before)
	n := []int{2, 0, 1, 3, 4}[c.Choose(5, pfx+"dependencies")]
	var want []expDep
	sb.WriteString("  <dependencies>\n")
	for i := 0; i < n; i++ {
		g := groupOrder[i%len(groupOrder)]
		a := fmt.Sprintf("art%d", i)
		shape := engine.PickTag(c, fmt.Sprintf("%sd%d-shape", pfx, i), "g-a-v", "g-a-v-scope", "a-g", "scope-first", "with-exclusions", "type-optional", "comment-inside", "version-property")
		e := expDep{Group: g, Artifact: a}
		if i > 0 && c.Bool(fmt.Sprintf("%sd%d-comment-before", pfx, i)) {
			sb.WriteString("    <!-- <dependency><groupId>commented.out</groupId><artifactId>no</artifactId></dependency> -->\n")
		}
		sb.WriteString("    <dependency>\n")
		G := "      <groupId>" + g + "</groupId>\n"
		A := "      <artifactId>" + a + "</artifactId>\n"
		V := "      <version>1.0</version>\n"
		switch shape {
		case "g-a-v":
			sb.WriteString(G + A + V)
		case "g-a-v-scope":
			sb.WriteString(G + A + V + "      <scope>test</scope>\n")
			e.Scope = "test"
		case "a-g":
			sb.WriteString(A + G)
		case "scope-first":
			sb.WriteString("      <scope>provided</scope>\n" + V + A + G)
			e.Scope = "provided"
		case "with-exclusions":
			sb.WriteString(G + A + V + "      <exclusions>\n        <exclusion>\n          <groupId>excluded.group</groupId>\n          <artifactId>excluded</artifactId>\n        </exclusion>\n      </exclusions>\n      <scope>runtime</scope>\n")
			e.Scope = "runtime"
		case "type-optional":
			sb.WriteString(G + A + "      <type>jar</type>\n      <optional>true</optional>\n")
		case "comment-inside":
			sb.WriteString(G + "      <!-- the artifact -->\n" + A + V)
		case "version-property":
			sb.WriteString(G + A + "      <version>${dep.version}</version>\n      <scope>compile</scope>\n")
			e.Scope = "compile"
		}
		sb.WriteString("    </dependency>\n")
		want = append(want, e)
	}
	sb.WriteString("  </dependencies>\n")
	section(after)
	sb.WriteString("</project>\n")
	return sb.String(), want
}

func c19PomGen(c *engine.C) engine.Case {
	pom, want := c19Pom(c, "")
	return func() engine.Result {
		res := engine.Result{InputKey: pom, Input: pom, Nontrivial: len(want) > 0}
		root, cleanup := materialise([]FileSpec{{Path: "pom.xml", Content: pom}})
		defer cleanup()
		got := deps.AnalysisMaven(filepath.Join(root, "pom.xml"))
		res.Outcome = depsString(got)
		res.Violations = compareDeps("maven", got, want)
		return res
	}
}

// ---- build.gradle -----------------------------------------------------------------------------------

var c19GradleForms = []string{"single-quoted", "double-quoted", "paren-single", "paren-double", "project-ref", "file-tree", "map-notation", "no-version", "paren-no-version"}

func c19Gradle(c *engine.C, pfx string) (string, []expDep) {
	var sb strings.Builder
	// the order in which the group ids are handed out to the entries; optionally com.alpha.ext directly behind com.alpha
	groupOrder := c19Groups
	if c.Bool(pfx + "extending-group-directly-behind-its-parent") {
		groupOrder = []string{c19Groups[0], c19Groups[3], c19Groups[1], c19Groups[2]}
	}
	switch engine.PickTag(c, pfx+"before", "plugins+repositories", "nothing", "plugins", "ext-block") {
	case "plugins+repositories":
		sb.WriteString("plugins {\n    id 'java'\n}\n\nrepositories {\n    mavenCentral()\n}\n\n")
	case "plugins":
		sb.WriteString("plugins {\n    id 'java'\n}\n\n")
	case "ext-block":
		sb.WriteString("group = 'my.app'\nversion = '0.0.1'\n\n")
	}
	n := []int{2, 0, 1, 3, 4}[c.Choose(5, pfx+"entries")]
	var want []expDep
	sb.WriteString("dependencies {\n")
	for i := 0; i < n; i++ {
		g := groupOrder[i%len(groupOrder)]
		a := fmt.Sprintf("art%d", i)
		form := c19GradleForms[c.Choose(len(c19GradleForms), fmt.Sprintf("%se%d-form", pfx, i))]
		if form != "single-quoted" {
			c.Tag("gradle=" + form)
		}
		conf := []string{"implementation", "testImplementation", "runtimeOnly", "compile"}[c.Choose(4, fmt.Sprintf("%se%d-conf", pfx, i))]
		e := expDep{Group: g, Artifact: a, Scope: conf}
		switch form {
		case "single-quoted":
			fmt.Fprintf(&sb, "    %s '%s:%s:1.0'\n", conf, g, a)
		case "double-quoted":
			fmt.Fprintf(&sb, "    %s \"%s:%s:1.0\"\n", conf, g, a)
		case "paren-single":
			fmt.Fprintf(&sb, "    %s('%s:%s:1.0')\n", conf, g, a)
		case "paren-double":
			fmt.Fprintf(&sb, "    %s(\"%s:%s:1.0\")\n", conf, g, a)
		case "no-version":
			fmt.Fprintf(&sb, "    %s '%s:%s'\n", conf, g, a)
		case "paren-no-version":
			fmt.Fprintf(&sb, "    %s('%s:%s')\n", conf, g, a)
		case "project-ref":
			fmt.Fprintf(&sb, "    %s project(':sub%d')\n", conf, i)
			want = append(want, expDep{Optional: true, Group: "\x00skip"})
			continue
		case "file-tree":
			fmt.Fprintf(&sb, "    %s fileTree(dir: 'libs', include: ['*.jar'])\n", conf)
			want = append(want, expDep{Optional: true, Group: "\x00skip"})
			continue
		case "map-notation":
			fmt.Fprintf(&sb, "    %s group: '%s', name: '%s', version: '1.0'\n", conf, g, a)
			e.Optional = true
		}
		want = append(want, e)
	}
	sb.WriteString("}\n")
	if c.Bool(pfx + "block-after") {
		sb.WriteString("\ntest {\n    useJUnitPlatform()\n}\n")
	}
	var w2 []expDep
	for _, w := range want {
		if w.Group != "\x00skip" {
			w2 = append(w2, w)
		}
	}
	return sb.String(), w2
}

func c19GradleGen(c *engine.C) engine.Case {
	script, want := c19Gradle(c, "")
	return func() engine.Result {
		res := engine.Result{InputKey: script, Input: script, Nontrivial: len(want) > 0}
		got := deps.AnalysisGradleString(script)
		res.Outcome = depsString(got)
		res.Violations = compareDeps("gradle", got, want)
		return res
	}
}

// ---- unused report ------------------------------------------------------------------------------------

func c19UnusedGen(c *engine.C) engine.Case {
	useGradle := c.Bool("gradle-instead-of-pom")
	var build string
	var want []expDep
	if useGradle {
		build, want = c19Gradle(c, "b-")
	} else {
		build, want = c19Pom(c, "b-")
	}
	mask := c.Choose(16, "imported-groups")
	twoFiles := c.Bool("imports-split-over-two-files")
	importForm := c.Choose(3, "import-form")
	testOnly := c.Bool("last-imported-group-is-imported-only-by-a-test-class")
	throughCmd := c.Bool("through-the-deps-command")
	if throughCmd {
		c.Tag("cli")
	}
	return func() engine.Result {
		var imported []string
		for i, g := range c19Groups {
			if mask&(1<<i) != 0 {
				imported = append(imported, g)
			}
		}
		mk := func(name string, groups []string) string {
			var sb strings.Builder
			sb.WriteString("package my.app;\n\nimport java.util.List;\n")
			for gi, g := range groups {
				switch (importForm + gi) % 3 {
				case 0:
					sb.WriteString("import " + g + ".api.Thing" + strings.ToUpper(g[:1]) + ";\n")
				case 1:
					sb.WriteString("import " + g + ".*;\n") // on-demand import of exactly the group package
				case 2:
					sb.WriteString("import static " + g + ".Consts.*;\n")
				}
			}
			sb.WriteString("\npublic class " + name + " {\n    private List<String> items;\n}\n")
			return sb.String()
		}
		files := []FileSpec{}
		if useGradle {
			files = append(files, FileSpec{Path: "build.gradle", Content: build})
		} else {
			files = append(files, FileSpec{Path: "pom.xml", Content: build})
		}
		if testOnly && len(imported) > 0 {
			// test sources count: a dependency used only by tests is used
			last := imported[len(imported)-1]
			files = append(files, FileSpec{Path: "src/test/java/my/app/ATest.java", Content: mk("ATest", []string{last})})
			if len(imported) > 1 {
				files = append(files, FileSpec{Path: "src/main/java/my/app/A.java", Content: mk("A", imported[:len(imported)-1])})
			} else {
				files = append(files, FileSpec{Path: "src/main/java/my/app/A.java", Content: mk("A", nil)})
			}
		} else if twoFiles && len(imported) > 1 {
			files = append(files, FileSpec{Path: "src/main/java/my/app/A.java", Content: mk("A", imported[:1])}, FileSpec{Path: "src/main/java/my/app/B.java", Content: mk("B", imported[1:])})
		} else {
			files = append(files, FileSpec{Path: "src/main/java/my/app/A.java", Content: mk("A", imported)})
		}
		res := engine.Result{InputKey: filesKey(files), Input: filesInput(files), Nontrivial: len(want) > 0}
		root, cleanup := materialise(files)
		defer cleanup()
		var javaFiles []string
		for _, f := range files {
			if strings.HasSuffix(f.Path, ".java") {
				javaFiles = append(javaFiles, filepath.Join(root, f.Path))
			}
		}
		idents := identPass(javaFiles)
		nodes := fullPass(idents, javaFiles)
		got := deps.NewDepApp().AnalysisPath(root, nodes)
		res.Outcome = depsString(got)
		isImported := map[string]bool{}
		for _, g := range imported {
			isImported[g] = true
		}
		// a dependency whose group id is a proper prefix of an imported group (com.alpha when only com.alpha.ext
		// is imported) may count as imported or not: the statement does not say what "imported" means there
		either := func(group string) bool {
			for _, g := range imported {
				if strings.HasPrefix(g, group+".") {
					return true
				}
			}
			return false
		}
		var wantUnused []expDep
		for _, w := range want {
			if !isImported[w.Group] && !either(w.Group) {
				wantUnused = append(wantUnused, w)
			}
		}
		var gotStrict []core_domain.CodeDependency
		for _, d := range got {
			g := strings.Trim(d.GroupId, "\"'")
			if isImported[g] {
				res.Violations = append(res.Violations, engine.V("unused", "imported-dependency-reported", "dependency %s:%s is imported by the sources but reported as unused", d.GroupId, d.ArtifactId))
			}
			if !isImported[g] && either(g) {
				continue
			}
			gotStrict = append(gotStrict, d)
		}
		res.Violations = append(res.Violations, compareDeps("unused", gotStrict, wantUnused)...)
		if throughCmd {
			// the table of the deps sub-command (analysis/dep) must list what the application function returns
			r := runCLIOf("dep", root, "deps", "-p", ".")
			if r.Exit != 0 {
				res.Violations = append(res.Violations, engine.V("deps-command", "exit-status", "deps -p . exited %d: %s", r.Exit, trimTo(r.Stderr+r.Stdout, 500)))
				return res
			}
			var rows, wantRows []string
			for _, row := range tableRows(r.Stdout) {
				if len(row) == 3 && strings.ToUpper(row[0]) == "GROUPID" {
					continue
				}
				rows = append(rows, strings.Join(row, "|"))
			}
			for _, d := range got {
				wantRows = append(wantRows, strings.Join([]string{d.GroupId, d.ArtifactId, d.Scope}, "|"))
			}
			if strings.Join(rows, "\n") != strings.Join(wantRows, "\n") {
				res.Violations = append(res.Violations, engine.V("deps-command", "table-differs", "the deps command lists\n%s\nDepAnalysisApp.AnalysisPath on the same tree returns\n%s", strings.Join(rows, "\n"), strings.Join(wantRows, "\n")))
			}
		}
		return res
	}
}

func init() {
	engine.Register(&engine.Spec{
		ID:    "C19",
		Title: "Declared build dependencies are all extracted; the unused report is exact",
		Rule: "X1: pom.xml files (namespaces x section before/after {properties, dependencyManagement with its own dependencies, build/plugins with plugin dependencies} x 0..4 dependencies x 8 child shapes/orders incl. exclusions, comments, property versions), " +
			"build.gradle scripts (blocks before/after x 0..4 entries x 9 notations x 4 configurations), and projects combining a build file with sources importing each subset of the 3 declared groups (one or two source files); deviation-bounded. " +
			"Non-trivial = at least one declared dependency. Distinct = distinct file contents.",
		Assumptions: []string{
			"Version, Type, Optional are not compared",
			"map notation (group:, name:) is neither required nor forbidden; project references and file trees must be skipped",
			"'occurs in an import' is read as substring, as implemented; the generated group ids are not substrings of each other's imports",
		},
		Sections: []engine.Section{
			{Name: "pom", KQuick: 3, KThor: 4, Gen: c19PomGen},
			{Name: "gradle", KQuick: 3, KThor: 4, Gen: c19GradleGen},
			{Name: "unused", KQuick: 3, KThor: 4, Gen: c19UnusedGen},
		},
	})
}
