package checks

import (
	"bytes"
	"encoding/json"
	"fmt"
	"path/filepath"
	"os"
	"os/exec"
	"time"

	cocacmd "github.com/modernizing/coca/cmd"
	"verif/engine"
)

// "mc cli <cwd> <args...>": runs coca's root command the way coca.go does (minus its CPU profiler) in a
// process of its own: cobra flag values and coca_reporter/ are per-process / per-cwd state.
func init() {
	engine.ExtraCmds["cli"] = func(args []string) {
		if len(args) < 1 {
			os.Exit(2)
		}
		if err := os.Chdir(args[0]); err != nil {
			fmt.Fprintln(os.Stderr, err)
			os.Exit(2)
		}
		root := cocacmd.NewRootCmd(os.Stdout)
		root.SetArgs(args[1:])
		if err := root.Execute(); err != nil {
			fmt.Fprintln(os.Stderr, "coca:", err)
			os.Exit(1)
		}
	}
}

type cliResult struct {
	Stdout, Stderr string
	Exit           int
	TimedOut       bool
}

// runCLI executes `coca <args>` with the given working directory in a child process.
func runCLI(cwd string, args ...string) cliResult {
	self, _ := os.Executable()
	cmd := exec.Command(self, append([]string{"cli", cwd}, args...)...)
	var so, se bytes.Buffer
	cmd.Stdout, cmd.Stderr = &so, &se
	cmd.Env = append(os.Environ(), "GIT_CONFIG_GLOBAL=/dev/null", "GIT_CONFIG_NOSYSTEM=1")
	if err := cmd.Start(); err != nil {
		return cliResult{Exit: -1, Stderr: err.Error()}
	}
	done := make(chan error, 1)
	go func() { done <- cmd.Wait() }()
	select {
	case err := <-done:
		r := cliResult{Stdout: so.String(), Stderr: se.String()}
		if err != nil {
			r.Exit = 1
			if ee, ok := err.(*exec.ExitError); ok {
				r.Exit = ee.ExitCode()
			}
		}
		return r
	case <-time.After(120 * time.Second):
		cmd.Process.Kill()
		return cliResult{Exit: -1, TimedOut: true, Stdout: so.String(), Stderr: se.String()}
	}
}

// readReport parses coca_reporter/<name> below cwd.
func readReport(cwd, name string, v interface{}) error {
	b, err := os.ReadFile(filepath.Join(cwd, "coca_reporter", name))
	if err != nil {
		return err
	}
	if string(b) == "null" {
		return nil
	}
	return json.Unmarshal(b, v)
}

func init() {
	// "mc javacheck <file>": syntax errors coca's own grammar reports for a file (debugging aid for generators)
	engine.ExtraCmds["javacheck"] = func(args []string) {
		b, err := os.ReadFile(args[0])
		if err != nil {
			fmt.Println(err)
			os.Exit(2)
		}
		n, first := javaSyntaxErrors(string(b))
		fmt.Printf("%d syntax errors; first: %s\n", n, first)
	}
}
