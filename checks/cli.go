package checks

import (
	"bytes"
	"encoding/json"
	"fmt"
	"path/filepath"
	"os"
	"os/exec"
	"time"

	depdriver "github.com/modernizing/coca/analysis/dep/app"
	godriver "github.com/modernizing/coca/analysis/golang/app"
	pydriver "github.com/modernizing/coca/analysis/python/app"
	cocacmd "github.com/modernizing/coca/cmd"
	"github.com/spf13/cobra"
	"verif/engine"
)

// "mc cli <cwd> <args...>": runs coca's root command the way coca.go does (minus its CPU profiler) in a
// process of its own: cobra flag values and coca_reporter/ are per-process / per-cwd state.
func init() {
	engine.ExtraCmds["cli"] = func(args []string) {
		if len(args) < 1 {
			os.Exit(2)
		}
		if err := os.Chdir(args[0]); err != nil {
			fmt.Fprintln(os.Stderr, err)
			os.Exit(2)
		}
		root := cocacmd.NewRootCmd(os.Stdout)
		root.SetArgs(args[1:])
		if err := root.Execute(); err != nil {
			fmt.Fprintln(os.Stderr, "coca:", err)
			os.Exit(1)
		}
	}
}

// "mc cli-of <dep|golang|python> <cwd> <args...>": the root commands of the separate drivers under analysis/.
func init() {
	engine.ExtraCmds["cli-of"] = func(args []string) {
		if len(args) < 2 {
			os.Exit(2)
		}
		if err := os.Chdir(args[1]); err != nil {
			fmt.Fprintln(os.Stderr, err)
			os.Exit(2)
		}
		var root *cobra.Command
		switch args[0] {
		case "dep":
			root = depdriver.NewRootCmd(os.Stdout)
		case "golang":
			root = godriver.NewRootCmd(os.Stdout)
		case "python":
			root = pydriver.NewRootCmd(os.Stdout)
		default:
			os.Exit(2)
		}
		root.SetArgs(args[2:])
		if err := root.Execute(); err != nil {
			fmt.Fprintln(os.Stderr, "driver:", err)
			os.Exit(1)
		}
	}
}

// "mc cliseq <root> <dir> <args...> ;; <dir> <args...> ;; ...": several coca commands in ONE process, each in its
// own working directory below root (what a long-running embedding of the command layer, or its own test suite,
// does); every flag must be given every time because cobra keeps flag values between executions.
func init() {
	engine.ExtraCmds["cliseq"] = func(args []string) {
		if len(args) < 2 {
			os.Exit(2)
		}
		root := args[0]
		var cur []string
		flush := func() {
			if len(cur) == 0 {
				return
			}
			if err := os.Chdir(filepath.Join(root, cur[0])); err != nil {
				fmt.Fprintln(os.Stderr, err)
				os.Exit(2)
			}
			cmd := cocacmd.NewRootCmd(os.Stdout)
			cmd.SetArgs(cur[1:])
			if err := cmd.Execute(); err != nil {
				fmt.Fprintln(os.Stderr, "coca:", err)
				os.Exit(1)
			}
			cur = nil
		}
		for _, a := range args[1:] {
			if a == ";;" {
				flush()
				continue
			}
			cur = append(cur, a)
		}
		flush()
	}
}

// runCLISeq runs a sequence of commands in one child process; each element is {dir, args...}.
func runCLISeq(root string, cmds [][]string) cliResult {
	argv := []string{"cliseq", root}
	for i, c := range cmds {
		if i > 0 {
			argv = append(argv, ";;")
		}
		argv = append(argv, c...)
	}
	return runChild(argv)
}

// runCLIOf executes the root command of one of the drivers under analysis/ in a child process.
func runCLIOf(kind, cwd string, args ...string) cliResult {
	return runChild(append([]string{"cli-of", kind, cwd}, args...))
}

type cliResult struct {
	Stdout, Stderr string
	Exit           int
	TimedOut       bool
}

// runCLI executes `coca <args>` with the given working directory in a child process.
func runCLI(cwd string, args ...string) cliResult {
	return runChild(append([]string{"cli", cwd}, args...))
}

func runChild(argv []string) cliResult {
	self, _ := os.Executable()
	cmd := exec.Command(self, argv...)
	var so, se bytes.Buffer
	cmd.Stdout, cmd.Stderr = &so, &se
	cmd.Env = append(os.Environ(), "GIT_CONFIG_GLOBAL=/dev/null", "GIT_CONFIG_NOSYSTEM=1")
	if err := cmd.Start(); err != nil {
		return cliResult{Exit: -1, Stderr: err.Error()}
	}
	done := make(chan error, 1)
	go func() { done <- cmd.Wait() }()
	select {
	case err := <-done:
		r := cliResult{Stdout: so.String(), Stderr: se.String()}
		if err != nil {
			r.Exit = 1
			if ee, ok := err.(*exec.ExitError); ok {
				r.Exit = ee.ExitCode()
			}
		}
		return r
	case <-time.After(120 * time.Second):
		cmd.Process.Kill()
		return cliResult{Exit: -1, TimedOut: true, Stdout: so.String(), Stderr: se.String()}
	}
}

// readReport parses coca_reporter/<name> below cwd.
func readReport(cwd, name string, v interface{}) error {
	b, err := os.ReadFile(filepath.Join(cwd, "coca_reporter", name))
	if err != nil {
		return err
	}
	if string(b) == "null" {
		return nil
	}
	return json.Unmarshal(b, v)
}

func init() {
	// "mc javacheck <file>": syntax errors coca's own grammar reports for a file (debugging aid for generators)
	engine.ExtraCmds["javacheck"] = func(args []string) {
		b, err := os.ReadFile(args[0])
		if err != nil {
			fmt.Println(err)
			os.Exit(2)
		}
		n, first := javaSyntaxErrors(string(b))
		fmt.Printf("%d syntax errors; first: %s\n", n, first)
	}
}
