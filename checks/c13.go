package checks

import (
	"fmt"
	"sort"
	"strings"

	"github.com/awalterschulze/gographviz"
	"github.com/modernizing/coca/pkg/application/arch"
	"github.com/modernizing/coca/pkg/application/arch/tequila"
	"github.com/modernizing/coca/pkg/domain/core_domain"
	"verif/engine"
)

// the last three are deeper than tequila.Level (7): the package merge cuts them at that level
var c13Pkgs = []string{"a", "ab", "bc", "c", "a.b.c", "a.b.c.d.e.f.g.h", "a.b.c.d.e.f.g.i", "a.b.c.d.e.f.g", "école.app", "中文.app"}
var c13Rels = []string{"none", "implements", "extends", "field", "call", "call-from-main", "call+field"}

type c13Type struct {
	Pkg, Name string
}

func (t c13Type) Full() string { return t.Pkg + "." + t.Name }

type c13Model struct {
	selfCallOnly string // full name of a type whose only self relation is a call (must not become an edge)
	types []c13Type
	deps  []core_domain.CodeDataStruct
	E     map[Edge]bool // reference edges between project types (A != B)
	All   map[Edge]bool // every recorded relation incl. non-project endpoints and self relations
	desc  []string
}

func c13Build(c *engine.C, n int, pkgFull bool) c13Model {
	var m c13Model
	names := []string{"T0", "T1", "T2", "T3"}
	for i := 0; i < n; i++ {
		// per-type default package chosen so that key-colliding package pairs (ab->c vs a->bc) are within reach
		def := []int{1, 3, 0, 2}[i]
		p := c13Pkgs[(c.Choose(len(c13Pkgs), fmt.Sprintf("pkg%d", i))+def)%len(c13Pkgs)]
		m.types = append(m.types, c13Type{p, names[i]})
	}
	if pkgFull && n >= 2 && c.Bool("t1-shares-its-simple-name-with-t0") && m.types[1].Pkg != m.types[0].Pkg {
		m.types[1].Name = m.types[0].Name
		c.Tag("same-simple-name-in-two-packages")
	}
	hasMain := pkgFull && c.Bool("main-type")
	if hasMain {
		m.types = append(m.types, c13Type{m.types[0].Pkg, "Main"})
		c.Tag("main-type")
	}
	m.E, m.All = map[Edge]bool{}, map[Edge]bool{}
	ds := make([]core_domain.CodeDataStruct, len(m.types))
	for i, t := range m.types {
		ds[i] = core_domain.CodeDataStruct{Package: t.Pkg, NodeName: t.Name, Type: "Class"}
		ds[i].Functions = []core_domain.CodeFunction{{Name: "run"}, {Name: "main"}}
	}
	addRel := func(i int, kind string, to c13Type, project bool) {
		src := m.types[i]
		edge := Edge{src.Full(), to.Full()}
		isMainSrc := src.Name == "Main"
		switch kind {
		case "implements":
			ds[i].Implements = append(ds[i].Implements, to.Full())
		case "extends":
			if ds[i].Extend != "" {
				return // a class has one superclass: the first one stays
			}
			ds[i].Extend = to.Full()
		case "field":
			ds[i].FunctionCalls = append(ds[i].FunctionCalls, core_domain.CodeCall{Package: to.Pkg, NodeName: to.Name, Type: "field"})
		case "call":
			ds[i].Functions[0].FunctionCalls = append(ds[i].Functions[0].FunctionCalls, core_domain.CodeCall{Package: to.Pkg, NodeName: to.Name, FunctionName: "m"})
			if !project {
				return // calls to non-project types are never relations
			}
		case "call-from-main":
			ds[i].Functions[1].FunctionCalls = append(ds[i].Functions[1].FunctionCalls, core_domain.CodeCall{Package: to.Pkg, NodeName: to.Name, FunctionName: "m"})
			return
		}
		if isMainSrc {
			return
		}
		m.All[edge] = true
		if project && to.Name != "Main" && edge.From != edge.To {
			m.E[edge] = true
		}
	}
	for i := range m.types {
		for j := range m.types {
			if i == j {
				continue
			}
			kind := c13Rels[c.Choose(len(c13Rels), fmt.Sprintf("r%d%d", i, j))]
			if kind == "none" {
				continue
			}
			m.desc = append(m.desc, fmt.Sprintf("%s -%s-> %s", m.types[i].Full(), kind, m.types[j].Full()))
			if kind == "call+field" {
				addRel(i, "call", m.types[j], true)
				addRel(i, "field", m.types[j], true)
				continue
			}
			addRel(i, kind, m.types[j], true)
		}
	}
	// relations to a non-project type and self relations
	ext := "none"
	if pkgFull {
		ext = engine.PickTag(c, "external", "none", "extends-external", "field-external", "call-external", "implements-external", "two-externals", "call-external-named-like-t1", "call-external-named-like-t1-before-the-other-calls")
	}
	switch ext {
	case "extends-external":
		addRel(0, "extends", c13Type{"ext", "Lib"}, false)
	case "field-external":
		addRel(0, "field", c13Type{"ext", "Lib"}, false)
	case "call-external":
		addRel(0, "call", c13Type{"ext", "Lib"}, false)
	case "implements-external":
		addRel(0, "implements", c13Type{"ext", "Lib"}, false)
	case "call-external-named-like-t1", "call-external-named-like-t1-before-the-other-calls":
		// a library type that shares its simple name with a project type, called by the type that may also call that one
		if n >= 2 {
			addRel(0, "call", c13Type{"org.lib", m.types[1].Name}, false)
			if fc := ds[0].Functions[0].FunctionCalls; ext == "call-external-named-like-t1-before-the-other-calls" && len(fc) > 1 {
				ds[0].Functions[0].FunctionCalls = append([]core_domain.CodeCall{fc[len(fc)-1]}, fc[:len(fc)-1]...)
			}
		}
	case "two-externals":
		// two relations of one type to library types of different packages
		addRel(0, "implements", c13Type{"ext", "Lib"}, false)
		addRel(0, "field", c13Type{"other.lib", "Tool"}, false)
	}
	self := "none"
	if pkgFull {
		self = engine.PickTag(c, "self", "none", "self-call", "self-field")
	}
	switch self {
	case "self-call":
		addRel(0, "call", m.types[0], true)
		m.selfCallOnly = m.types[0].Full()
	case "self-field":
		addRel(0, "field", m.types[0], true)
	}
	m.deps = ds
	return m
}

func c13Nodes(m c13Model) map[string]bool {
	r := map[string]bool{}
	for _, t := range m.types {
		if t.Name != "Main" {
			r[t.Full()] = true
		}
	}
	return r
}

// clusterPaths parses the emitted DOT and returns, for every node, its cluster path + label.
func clusterPaths(dot string) (map[string]string, []Edge, error) {
	ast, err := gographviz.ParseString(dot)
	if err != nil {
		return nil, nil, err
	}
	g := gographviz.NewGraph()
	if err := gographviz.Analyse(ast, g); err != nil {
		return nil, nil, err
	}
	unq := func(s string) string { return strings.Trim(s, "\"") }
	paths := map[string]string{}
	for _, n := range g.Nodes.Nodes {
		label := unq(n.Attrs["label"])
		var segs []string
		cur := n.Name
		for depth := 0; depth < 50; depth++ {
			parents := map[string]bool{}
			for k := range g.Relations.ChildToParents[cur] {
				parents[k] = true
			}
			if len(parents) > 1 {
				delete(parents, "G") // edge endpoints are also registered with the top-level graph
			}
			if len(parents) != 1 {
				if len(parents) > 1 {
					return nil, nil, fmt.Errorf("node/cluster %s has %d parents", cur, len(parents))
				}
				break
			}
			var p string
			for k := range parents {
				p = k
			}
			if p == "G" {
				break
			}
			sg := g.SubGraphs.SubGraphs[p]
			if sg == nil {
				return nil, nil, fmt.Errorf("unknown cluster %s", p)
			}
			segs = append([]string{unq(sg.Attrs["label"])}, segs...)
			cur = p
		}
		// the innermost cluster is the leaf's own cluster (same label as the node): drop it
		if len(segs) > 0 && segs[len(segs)-1] == label {
			segs = segs[:len(segs)-1]
		}
		paths[n.Name] = strings.Join(append(segs, label), ".")
	}
	var es []Edge
	for _, e := range g.Edges.Edges {
		es = append(es, Edge{e.Src, e.Dst})
	}
	return paths, es, nil
}

func c13Check(m c13Model, filter string, includeSel string) engine.Result {
	res := engine.Result{InputKey: strings.Join(m.desc, ";") + fmt.Sprint(m.types) + "|" + filter + "|" + includeSel,
		Input: map[string]interface{}{"types": fmt.Sprint(m.types), "relations": m.desc, "include": includeSel}, Nontrivial: len(m.E) > 0}
	identMap := core_domain.BuildIdentifierMap(m.deps)
	g := arch.NewArchApp().Analysis(m.deps, identMap)
	nodes := c13Nodes(m)
	var out []string
	// node set
	for k := range g.NodeList {
		if !nodes[k] {
			res.Violations = append(res.Violations, engine.V("nodes", "extra", "node %q is not a project type (or is Main)", k))
		}
	}
	for k := range nodes {
		if _, ok := g.NodeList[k]; !ok {
			res.Violations = append(res.Violations, engine.V("nodes", "missing", "project type %q has no node", k))
		}
	}
	for _, r := range g.RelationList {
		if m.selfCallOnly != "" && r.From == m.selfCallOnly && r.To == m.selfCallOnly {
			res.Violations = append(res.Violations, engine.V("edges", "self-edge-from-call", "type %s calls its own method and got an edge to itself; the statement only counts calls to a project type different from the caller", r.From))
		}
	}
	got := map[Edge]bool{}
	for _, r := range g.RelationList {
		if nodes[r.From] && nodes[r.To] && r.From != r.To {
			got[Edge{r.From, r.To}] = true
		}
	}
	out = append(out, "E: "+strings.Join(sortedEdges(got), ", "))
	for e := range m.E {
		if !got[e] {
			res.Violations = append(res.Violations, engine.V("edges", "missing", "dependency %s -> %s has no edge (%v)", e.From, e.To, m.desc))
		}
	}
	for e := range got {
		if !m.E[e] {
			res.Violations = append(res.Violations, engine.V("edges", "extra", "edge %s -> %s without a dependency in the model (%v)", e.From, e.To, m.desc))
		}
	}
	// merged graphs
	for _, mf := range []struct {
		name string
		f    func(string) string
	}{{"header", tequila.MergeHeaderFunc}, {"package", tequila.MergePackageFunc}} {
		mg := g.MergeHeaderFile(mf.f)
		// the two shipped merge functions, restated: header = the name without its last segment; package = the
		// first segment, or the first tequila.Level segments of a name with more segments than that
		for k := range g.NodeList {
			segs := strings.Split(k, ".")
			want := k
			switch mf.name {
			case "header":
				if len(segs) > 1 {
					want = strings.Join(segs[:len(segs)-1], ".")
				}
			case "package":
				want = segs[0]
				if len(segs) == 1 {
					want = "main"
				}
				if len(segs) > tequila.Level {
					want = strings.Join(segs[:tequila.Level], ".")
				}
			}
			if mf.f(k) != want {
				res.Violations = append(res.Violations, engine.V("merge-"+mf.name, "merge-function", "type %q is merged into %q, its %s is %q", k, mf.f(k), mf.name, want))
				break
			}
		}
		wantNodes := map[string]bool{}
		for k := range g.NodeList {
			wantNodes[mf.f(k)] = true
		}
		for k := range wantNodes {
			if _, ok := mg.NodeList[k]; !ok {
				res.Violations = append(res.Violations, engine.V("merge-"+mf.name, "node-missing", "merged node %q missing", k))
			}
		}
		for k := range mg.NodeList {
			if !wantNodes[k] {
				res.Violations = append(res.Violations, engine.V("merge-"+mf.name, "node-extra", "merged node %q is not the image of a node", k))
			}
		}
		lower, upper := map[Edge]bool{}, map[Edge]bool{}
		for e := range got {
			if mf.f(e.From) != mf.f(e.To) {
				lower[Edge{mf.f(e.From), mf.f(e.To)}] = true
			}
		}
		for _, r := range g.RelationList {
			if mf.f(r.From) != mf.f(r.To) {
				upper[Edge{mf.f(r.From), mf.f(r.To)}] = true
			}
		}
		mgot := map[Edge]bool{}
		for _, r := range mg.RelationList {
			mgot[Edge{r.From, r.To}] = true
			if r.From == r.To {
				res.Violations = append(res.Violations, engine.V("merge-"+mf.name, "self-loop", "merged graph has self-loop on %q", r.From))
			}
		}
		out = append(out, "M-"+mf.name+": "+strings.Join(sortedEdges(mgot), ", "))
		for e := range lower {
			if !mgot[e] {
				res.Violations = append(res.Violations, engine.V("merge-"+mf.name, "edge-missing", "quotient edge %s -> %s missing from the merged graph (merged edges: %v)", e.From, e.To, sortedEdges(mgot)))
			}
		}
		for e := range mgot {
			if !upper[e] {
				res.Violations = append(res.Violations, engine.V("merge-"+mf.name, "edge-extra", "merged edge %s -> %s is not the image of any relation", e.From, e.To))
			}
		}
		// relations that end at a non-node (a library type, the Main class) are outside the statement's graph: their
		// images may all be kept or all be dropped, but not some of them
		var optional, kept []string
		for e := range upper {
			if !lower[e] {
				optional = append(optional, e.From+" -> "+e.To)
				if mgot[e] {
					kept = append(kept, e.From+" -> "+e.To)
				}
			}
		}
		if len(kept) > 0 && len(kept) < len(optional) {
			sort.Strings(optional)
			sort.Strings(kept)
			res.Violations = append(res.Violations, engine.V("merge-"+mf.name, "some-non-node-relations-kept-others-dropped", "of the merged relations that end at a non-node, %v are kept and the others of %v are dropped", kept, optional))
		}
		// the merged graph as `coca arch -H` / `-P` draws it: every merged node once, every merged edge drawn
		mdot := "di" + mg.ToMapDot(func(string) bool { return true }).String()
		mpaths, medges, err := clusterPaths(mdot)
		if err != nil {
			res.Violations = append(res.Violations, engine.V("merge-"+mf.name+"-dot", "not-well-formed", "DOT of the merged graph does not parse: %v\n%s", err, mdot))
			continue
		}
		mshown := map[string]int{}
		for _, p := range mpaths {
			mshown[p]++
		}
		var mshownList []string
		for p := range mshown {
			mshownList = append(mshownList, p)
		}
		sort.Strings(mshownList)
		for k := range mg.NodeList {
			// a merged node whose path is a proper prefix of another merged node's path (package a next to
			// package a.b) is drawn as a cluster only; the statement does not say how that case is shown
			inner := false
			for o := range mg.NodeList {
				inner = inner || strings.HasPrefix(o, k+".")
			}
			if mshown[k] > 1 || (mshown[k] != 1 && !inner) {
				res.Violations = append(res.Violations, engine.V("merge-"+mf.name+"-dot", "node-count", "merged node %q is displayed %d times (displayed: %v)", k, mshown[k], mshownList))
			}
		}
		for p := range mshown {
			if _, ok := mg.NodeList[p]; !ok {
				res.Violations = append(res.Violations, engine.V("merge-"+mf.name+"-dot", "unknown-node", "displayed node %q is not a merged node", p))
			}
		}
		mdrawn := map[Edge]bool{}
		for _, e := range medges {
			f, okf := mpaths[e.From]
			t, okt := mpaths[e.To]
			if !okf || !okt {
				res.Violations = append(res.Violations, engine.V("merge-"+mf.name+"-dot", "edge-to-undisplayed", "edge %s -> %s of the merged DOT does not join two displayed nodes", e.From, e.To))
				continue
			}
			mdrawn[Edge{f, t}] = true
		}
		for e := range mgot {
			if e.From != e.To && mshown[e.From] == 1 && mshown[e.To] == 1 && !mdrawn[e] {
				res.Violations = append(res.Violations, engine.V("merge-"+mf.name+"-dot", "edge-missing", "merged edge %s -> %s is not drawn (drawn: %v)", e.From, e.To, sortedEdges(mdrawn)))
			}
		}
		for e := range mdrawn {
			if !mgot[e] {
				res.Violations = append(res.Violations, engine.V("merge-"+mf.name+"-dot", "edge-extra", "drawn edge %s -> %s is not a merged relation", e.From, e.To))
			}
		}
	}
	// DOT
	include := func(k string) bool { return strings.Contains(k, filter) }
	dot := "di" + g.ToMapDot(include).String()
	paths, edges, err := clusterPaths(dot)
	if err != nil {
		res.Violations = append(res.Violations, engine.V("dot", "not-well-formed", "arch.dot does not parse: %v\n%s", err, dot))
		res.Outcome = strings.Join(out, "\n") + "\nUNPARSABLE"
		return res
	}
	shown := map[string]int{}
	byNode := map[string]string{}
	for n, p := range paths {
		shown[p]++
		byNode[n] = p
	}
	var shownList []string
	for p := range shown {
		shownList = append(shownList, p)
	}
	sort.Strings(shownList)
	out = append(out, "DOT nodes: "+strings.Join(shownList, ", "))
	for k := range nodes {
		if include(k) {
			if shown[k] != 1 {
				res.Violations = append(res.Violations, engine.V("dot", "node-count", "included type %q is displayed %d times under its package path (displayed: %v)", k, shown[k], shownList))
			}
		} else if shown[k] > 0 {
			res.Violations = append(res.Violations, engine.V("dot", "filtered-node-shown", "type %q does not match the filter but is displayed", k))
		}
	}
	for p := range shown {
		if !nodes[p] {
			res.Violations = append(res.Violations, engine.V("dot", "unknown-node", "displayed node %q is not a project type", p))
		}
	}
	dotEdges := map[Edge]bool{}
	for _, e := range edges {
		f, okf := byNode[e.From]
		t, okt := byNode[e.To]
		if !okf || !okt {
			res.Violations = append(res.Violations, engine.V("dot", "edge-to-undisplayed", "edge %s -> %s does not join two displayed nodes", e.From, e.To))
			continue
		}
		dotEdges[Edge{f, t}] = true
		if !m.All[Edge{f, t}] {
			res.Violations = append(res.Violations, engine.V("dot", "edge-without-relation", "drawn edge %s -> %s corresponds to no relation", f, t))
		}
	}
	for e := range m.E {
		if include(e.From) && include(e.To) && !dotEdges[e] {
			res.Violations = append(res.Violations, engine.V("dot", "edge-missing", "dependency %s -> %s between two displayed nodes is not drawn", e.From, e.To))
		}
	}
	out = append(out, "DOT edges: "+strings.Join(sortedEdges(dotEdges), ", "))
	res.Outcome = strings.Join(out, "\n")
	return res
}

func c13Gen(n int, extras bool) func(c *engine.C) engine.Case {
	return func(c *engine.C) engine.Case {
		m := c13Build(c, n, extras)
		sel := engine.PickTag(c, "include", "all", "one-package", "one-type", "nothing")
		filter := ""
		switch sel {
		case "one-package":
			filter = m.types[0].Pkg + "."
		case "one-type":
			filter = m.types[len(m.types)-1].Full()
		case "nothing":
			filter = "zzz"
		}
		return func() engine.Result { return c13Check(m, filter, sel) }
	}
}

func init() {
	engine.Register(&engine.Spec{
		ID:    "C13",
		Title: "Architecture graph edges are exactly the type dependencies in the model",
		Rule: "X1 over abstract code models: full product for 2 types (5 package paths each incl. key-colliding ones x 7 relation kinds per ordered pair x Main type x external relation x self relation x include filter); deviation-bounded for 3 and 4 types. " +
			"Each model is checked unmerged, merged by header and by package, and through the emitted DOT (parsed with gographviz). Non-trivial = at least one dependency between project types.",
		Assumptions: []string{
			"no type whose fully-qualified name is a package prefix of another type (Java forbids the clash)",
			"self relations are neither required nor forbidden; merged edges induced by non-project endpoints are allowed (upper bound) but not required",
			"'package function' = the merge function handed to MergeHeaderFile (both shipped functions are exercised)",
		},
		Sections: []engine.Section{
			{Name: "two-types-full", KQuick: -1, KThor: -1, Gen: c13Gen(2, false)},
			{Name: "three-types", KQuick: 3, KThor: 4, Gen: c13Gen(3, true)},
			{Name: "four-types", KQuick: 2, KThor: 3, Gen: c13Gen(4, true)},
			{Name: "through-coca-arch", KQuick: 2, KThor: 3, Gen: cliArchGen},
		},
	})
}
