package checks

import (
	"encoding/json"
	"fmt"
	"os"
	"path/filepath"
	"sort"
	"strconv"
	"strings"

	"github.com/modernizing/coca/pkg/application/bs"
	"github.com/modernizing/coca/pkg/domain/bs_domain"
	"verif/engine"
	jg "verif/javagen"
)

var c10Kinds = []string{"longMethod", "longParameterList", "largeClass", "dataClass", "lazyElement", "repeatedSwitches", "complexCondition"}
var c10Sized = map[string]bool{"largeClass": true, "repeatedSwitches": true, "longParameterList": true, "longMethod": true, "dataClass": true}

type c10Exp struct {
	Kind     string
	Lines    []int // acceptable reported lines (nil: class-level, no line demanded)
	Sizes    []int // acceptable sizes (nil: any)
	Required bool
	Why      string
	matched  bool
}

type c10Cond struct{ l, r *jg.Site }

type c10Meta struct {
	m            *jg.Method
	topIfs       int
	topSwitches  int
	conds        []c10Cond // top-level if conditions
	isGS         bool
	hasBody      bool
}

func lp() *jg.Site { return &jg.Site{Kind: "mark", Name: "("} }
func rp() *jg.Site { return &jg.Site{Kind: "mark", Name: ")"} }

func c10IfStmt(meta *c10Meta, height int, variant int) jg.Stmt {
	l, r := lp(), rp()
	fr := []jg.Frag{jg.T("if "), jg.S(l), jg.T("flag")}
	for i := 1; i < height; i++ {
		fr = append(fr, jg.T("\n        && n > "+strconv.Itoa(i)))
	}
	fr = append(fr, jg.S(r))
	switch variant {
	case 1: // nested if inside: must not count
		fr = append(fr, jg.T(" {\n    if (n > 3) {\n        n++;\n    }\n}"))
	case 2: // else-if chain: one statement
		fr = append(fr, jg.T(" {\n    n++;\n} else if (n > 5) {\n    n--;\n} else {\n    n = 0;\n}"))
	default:
		fr = append(fr, jg.T(" {\n    n++;\n}"))
	}
	meta.topIfs++
	meta.conds = append(meta.conds, c10Cond{l, r})
	return jg.Stmt{Frags: fr}
}

func c10SwitchStmt(meta *c10Meta, variant int) jg.Stmt {
	meta.topSwitches++
	if variant == 1 { // nested switch inside a case: must not count
		return jg.St(jg.T("switch (n) {\n    case 1:\n        switch (n) {\n            default:\n                break;\n        }\n        break;\n    default:\n        break;\n}"))
	}
	return jg.St(jg.T("switch (n) {\n    case 1:\n        n++;\n        break;\n    default:\n        break;\n}"))
}

func c10Gen(c *engine.C) engine.Case {
	layout, _ := pickLayout(c)
	cls := &jg.Class{Pkg: "p", Name: "Big", Kind: "class", Mods: []string{"public"}}
	iface := c.Bool("interface")
	if iface {
		cls.Kind = "interface"
		c.Tag("interface")
	}
	var metas []*c10Meta
	add := func(m *jg.Method, meta *c10Meta) {
		if iface {
			m.NoBody, m.Mods, m.Body = true, nil, nil
			meta.topIfs, meta.topSwitches, meta.conds = 0, 0, nil
		}
		meta.m = m
		meta.hasBody = !m.NoBody
		meta.isGS = strings.HasPrefix(m.Name, "get") || strings.HasPrefix(m.Name, "set")
		metas = append(metas, meta)
		cls.Members = append(cls.Members, jg.Member{Method: m})
	}
	cls.Members = append(cls.Members, jg.Member{Field: &jg.Field{Mods: []string{"private"}, Type: "int", Name: "n"}},
		jg.Member{Field: &jg.Field{Mods: []string{"private"}, Type: "boolean", Name: "flag"}})
	if iface {
		cls.Members = nil
	}
	shape := engine.PickTag(c, "class-shape", "normal", "only-getters-1", "only-getters-2", "no-methods", "getters-and-ctor-only")
	filler := func(n int, at string) []jg.Stmt {
		var r []jg.Stmt
		for i := 0; i < n; i++ {
			switch {
			case at == "comments" && i%3 == 1:
				if layout.JoinMembers || layout.JoinStmts {
					// statements share a line: a line comment would swallow the code that follows it
					r = append(r, jg.St(jg.T("/* filler comment */")))
				} else {
					r = append(r, jg.St(jg.T("// filler comment")))
				}
			case at == "blanks" && i%3 == 1:
				r = append(r, jg.St(jg.T("")))
			default:
				r = append(r, jg.St(jg.T("n++;")))
			}
		}
		return r
	}
	switch shape {
	case "only-getters-1", "only-getters-2", "getters-and-ctor-only":
		add(&jg.Method{Mods: []string{"public"}, Ret: "int", Name: "getN", Body: []jg.Stmt{jg.St(jg.T("return n;"))}}, &c10Meta{})
		if shape != "only-getters-1" {
			add(&jg.Method{Mods: []string{"public"}, Ret: "void", Name: "setN", Params: []jg.Param{{Type: "int", Name: "v"}}, Body: []jg.Stmt{jg.St(jg.T("n = v;"))}}, &c10Meta{})
		}
	case "no-methods":
	default:
		// method count around the largeClass threshold, with getters/setters mixed in
		count := []int{1, 19, 20, 21}[c.Choose(4, "plain-methods")]
		gs := []int{0, 2, 4}[c.Choose(3, "getters-mixed-in")]
		// the last plain method may be an overload of the first one (same name, other parameter list): methods are
		// counted, not names
		lastOverloadsFirst := count > 1 && c.Bool("last-plain-method-overloads-the-first")
		if lastOverloadsFirst {
			c.Tag("overloaded-plain-method")
		}
		for i := 0; i < count; i++ {
			if lastOverloadsFirst && i == count-1 {
				add(&jg.Method{Mods: []string{"public"}, Ret: "void", Name: "work0", Params: []jg.Param{{Type: "int", Name: "extra"}}, Body: filler(1, "")}, &c10Meta{})
				continue
			}
			add(&jg.Method{Mods: []string{"public"}, Ret: "void", Name: fmt.Sprintf("work%d", i), Body: filler(1, "")}, &c10Meta{})
			if i == 0 && gs > 0 {
				add(&jg.Method{Mods: []string{"public"}, Ret: "int", Name: "getN", Body: []jg.Stmt{jg.St(jg.T("return n;"))}}, &c10Meta{})
				add(&jg.Method{Mods: []string{"public"}, Ret: "void", Name: "setN", Params: []jg.Param{{Type: "int", Name: "v"}}, Body: []jg.Stmt{jg.St(jg.T("n = v;"))}}, &c10Meta{})
			}
			if i == 0 && gs > 2 {
				// accessors whose whole name is the prefix (Supplier#get, List#set)
				add(&jg.Method{Mods: []string{"public"}, Ret: "int", Name: "get", Body: []jg.Stmt{jg.St(jg.T("return n;"))}}, &c10Meta{})
				add(&jg.Method{Mods: []string{"public"}, Ret: "void", Name: "set", Params: []jg.Param{{Type: "int", Name: "v"}}, Body: []jg.Stmt{jg.St(jg.T("n = v;"))}}, &c10Meta{})
			}
		}
		// smelly methods may carry accessor-style names (get*/set*): thresholds apply to them all the same
		accessorNames := c.Bool("smelly-methods-named-like-accessors")
		nm := func(neutral, accessor string) string {
			if accessorNames {
				return accessor
			}
			return neutral
		}
		// long method around the threshold
		if lt := []int{0, 29, 30, 31, 32}[c.Choose(5, "long-method")]; lt > 0 {
			how := engine.PickTag(c, "long-layout", "plain", "annotation-above", "comments", "blanks")
			m := &jg.Method{Mods: []string{"public"}, Ret: "int", Name: nm("longOne", "getLongOne")}
			if how == "annotation-above" {
				m.Anns = []jg.Ann{{Name: "Deprecated"}}
			}
			m.Body = append(filler(lt-2, how), jg.St(jg.T("return n;")))
			add(m, &c10Meta{})
		}
		if pc := []int{0, 4, 5, 6}[c.Choose(4, "param-count")]; pc > 0 {
			m := &jg.Method{Mods: []string{"public"}, Ret: "void", Name: nm("manyParams", "setAll"), Body: filler(1, "")}
			for i := 0; i < pc; i++ {
				m.Params = append(m.Params, jg.Param{Type: "int", Name: fmt.Sprintf("a%d", i)})
			}
			add(m, &c10Meta{})
		}
		nif := []int{0, 7, 8, 9}[c.Choose(4, "top-level-ifs")]
		nsw := []int{0, 7, 8, 9}[c.Choose(4, "top-level-switches")]
		height := []int{1, 3, 4, 5}[c.Choose(4, "condition-height")]
		nestedComplex := c.Bool("nested-complex-condition")
		other := "none"
		if height > 1 {
			other = engine.PickTag(c, "other-method-with-one-line-if", "none", "before", "after")
		}
		plainIf := func() {
			meta := &c10Meta{}
			add(&jg.Method{Mods: []string{"public"}, Ret: "void", Name: "plainIf", Body: []jg.Stmt{c10IfStmt(meta, 1, 0)}}, meta)
		}
		if other == "before" {
			plainIf()
		}
		if nif > 0 || nsw > 0 || height > 1 || nestedComplex {
			meta := &c10Meta{}
			m := &jg.Method{Mods: []string{"public"}, Ret: "void", Name: nm("branchy", "getStatus")}
			together := true
			if nif > 0 && nsw > 0 {
				together = !c.Bool("ifs-and-switches-in-separate-methods")
			}
			for i := 0; i < nif; i++ {
				m.Body = append(m.Body, c10IfStmt(meta, 1, i%3))
			}
			if height > 1 {
				m.Body = append(m.Body, c10IfStmt(meta, height, 0))
			}
			if nestedComplex {
				// a 5-line condition that is not top-level (inside a while body): never reported
				m.Body = append(m.Body, jg.St(jg.T("while (flag) {\n    if (flag\n            && n > 1\n            && n > 2\n            && n > 3\n            && n > 4) {\n        n++;\n    }\n}")))
			}
			if together {
				for i := 0; i < nsw; i++ {
					m.Body = append(m.Body, c10SwitchStmt(meta, i%2))
				}
				add(m, meta)
			} else {
				add(m, meta)
				meta2 := &c10Meta{}
				m2 := &jg.Method{Mods: []string{"public"}, Ret: "void", Name: nm("switchy", "setSwitches")}
				for i := 0; i < nsw; i++ {
					m2.Body = append(m2.Body, c10SwitchStmt(meta2, i%2))
				}
				add(m2, meta2)
			}
		}
		if other == "after" {
			plainIf()
		}
		if c.Bool("extra-smelly-methods") {
			// more sized findings, in ascending size order in the source (so an unsorted report is visibly unsorted)
			for _, pc := range []int{6, 8, 7} {
				m := &jg.Method{Mods: []string{"public"}, Ret: "void", Name: fmt.Sprintf("wide%d", pc), Body: filler(1, "")}
				for i := 0; i < pc; i++ {
					m.Params = append(m.Params, jg.Param{Type: "int", Name: fmt.Sprintf("b%d", i)})
				}
				add(m, &c10Meta{})
			}
			for _, ln := range []int{33, 36, 34} {
				add(&jg.Method{Mods: []string{"public"}, Ret: "void", Name: fmt.Sprintf("tall%d", ln), Body: filler(ln-1, "")}, &c10Meta{})
			}
			c.Tag("several-sized-findings")
		}
	}
	if shape == "getters-and-ctor-only" && !iface {
		cls.Members = append(cls.Members, jg.Member{Method: &jg.Method{Mods: []string{"public"}, Name: "Big", IsCtor: true, Body: []jg.Stmt{jg.St(jg.T("n = 0;"))}}})
	}
	src := jg.Print(cls, layout)
	files := []FileSpec{{Path: "src/Big.java", Content: src}}
	// a file analysed before it: nothing is to be reported for it, and it must not change what is reported for the class
	switch engine.PickTag(c, "file-before-it", "none", "interface-with-a-plain-method", "interface-with-a-getter", "enum-with-a-method", "annotation-type", "class-with-one-plain-method") {
	case "interface-with-a-plain-method":
		files = append(files, FileSpec{Path: "src/ARepo.java", Content: "package p;\n\npublic interface ARepo {\n    void save(String b);\n}\n"})
	case "interface-with-a-getter":
		files = append(files, FileSpec{Path: "src/ARepo.java", Content: "package p;\n\npublic interface ARepo {\n    String getName();\n}\n"})
	case "enum-with-a-method":
		files = append(files, FileSpec{Path: "src/AKind.java", Content: "package p;\n\npublic enum AKind {\n    ONE, TWO;\n\n    public int weigh(int n) {\n        return n + 1;\n    }\n}\n"})
	case "annotation-type":
		files = append(files, FileSpec{Path: "src/AMark.java", Content: "package p;\n\npublic @interface AMark {\n    String value();\n}\n"})
	case "class-with-one-plain-method":
		files = append(files, FileSpec{Path: "src/ACalc.java", Content: "package p;\n\npublic class ACalc {\n    public int add(int x, int y) {\n        return x + y;\n    }\n}\n"})
	}
	// a file analysed after it that declares neither a class nor an interface: nothing is to be reported for it
	switch engine.PickTag(c, "file-without-class-after-it", "none", "enum-with-getter", "package-info", "annotation-type", "zero-bytes", "blank-lines-only", "comments-only") {
	case "zero-bytes":
		files = append(files, FileSpec{Path: "src/Empty.java", Content: ""})
	case "blank-lines-only":
		files = append(files, FileSpec{Path: "src/Empty.java", Content: "\n  \n\t\n"})
	case "comments-only":
		files = append(files, FileSpec{Path: "src/Empty.java", Content: "// nothing declared here\n/* yet */\n"})
	case "enum-with-getter":
		files = append(files, FileSpec{Path: "src/Colour.java", Content: "package p;\n\npublic enum Colour {\n    RED, GREEN;\n\n    private int code;\n\n    public int getCode() {\n        return code;\n    }\n}\n"})
	case "package-info":
		files = append(files, FileSpec{Path: "src/package-info.java", Content: "/** documentation only */\npackage p;\n"})
	case "annotation-type":
		files = append(files, FileSpec{Path: "src/Marks.java", Content: "package p;\n\npublic @interface Marks {\n    String value();\n}\n"})
	}
	// ignore subsets with <= 2 (quick) kinds
	var subsets [][]string
	subsets = append(subsets, nil)
	for i := range c10Kinds {
		subsets = append(subsets, []string{c10Kinds[i]})
	}
	for i := range c10Kinds {
		for j := i + 1; j < len(c10Kinds); j++ {
			subsets = append(subsets, []string{c10Kinds[i], c10Kinds[j]})
		}
	}
	if !c.Quick() {
		subsets = nil
		for mask := 0; mask < 128; mask++ {
			var s []string
			for i := range c10Kinds {
				if mask&(1<<i) != 0 {
					s = append(s, c10Kinds[i])
				}
			}
			subsets = append(subsets, s)
		}
	}
	ignore := subsets[c.Choose(len(subsets), "ignore-set")]
	mode := engine.PickTag(c, "mode", "api", "cli", "cli-sort")
	ctorOnly := shape == "getters-and-ctor-only"
	return func() engine.Result { return c10Check(files, cls, metas, iface, ignore, mode, ctorOnly) }
}

func c10Expected(cls *jg.Class, metas []*c10Meta, iface bool, ctorOnly bool) []*c10Exp {
	var exp []*c10Exp
	nonGS, total := 0, 0
	allGS := true
	for _, mt := range metas {
		total++
		if !mt.isGS {
			nonGS++
			allGS = false
		}
		m := mt.m
		lines := []int{m.DeclPos.Line, m.TypePos.Line}
		if mt.hasBody {
			d1, d2 := m.CloseLine-m.DeclPos.Line, m.CloseLine-m.TypePos.Line
			if d1 > 30 || d2 > 30 {
				exp = append(exp, &c10Exp{Kind: "longMethod", Lines: lines, Sizes: []int{d1, d2}, Required: d1 > 30 && d2 > 30,
					Why: fmt.Sprintf("method %s: closing brace %d/%d lines below its start", m.Name, d1, d2)})
			}
		}
		if len(m.Params) > 5 {
			exp = append(exp, &c10Exp{Kind: "longParameterList", Lines: lines, Sizes: []int{len(m.Params)}, Required: true, Why: fmt.Sprintf("method %s has %d parameters", m.Name, len(m.Params))})
		}
		if mt.topIfs >= 8 && mt.topSwitches >= 8 {
			exp = append(exp, &c10Exp{Kind: "repeatedSwitches", Lines: lines, Sizes: []int{mt.topIfs, mt.topSwitches}, Required: true, Why: fmt.Sprintf("method %s: %d top-level ifs, %d switches", m.Name, mt.topIfs, mt.topSwitches)})
			exp = append(exp, &c10Exp{Kind: "repeatedSwitches", Lines: lines, Sizes: []int{mt.topIfs, mt.topSwitches}, Required: false, Why: "second finding when both counts reach the threshold"})
		} else if mt.topIfs >= 8 {
			exp = append(exp, &c10Exp{Kind: "repeatedSwitches", Lines: lines, Sizes: []int{mt.topIfs}, Required: true, Why: fmt.Sprintf("method %s: %d top-level ifs", m.Name, mt.topIfs)})
		} else if mt.topSwitches >= 8 {
			exp = append(exp, &c10Exp{Kind: "repeatedSwitches", Lines: lines, Sizes: []int{mt.topSwitches}, Required: true, Why: fmt.Sprintf("method %s: %d top-level switches", m.Name, mt.topSwitches)})
		}
		for _, cd := range mt.conds {
			if cd.r.Pos.Line-cd.l.Pos.Line+1 >= 4 {
				exp = append(exp, &c10Exp{Kind: "complexCondition", Lines: []int{cd.l.Pos.Line}, Required: true, Why: fmt.Sprintf("condition at line %d spans %d lines", cd.l.Pos.Line, cd.r.Pos.Line-cd.l.Pos.Line+1)})
			}
		}
	}
	if !iface {
		if nonGS >= 20 {
			exp = append(exp, &c10Exp{Kind: "largeClass", Sizes: []int{nonGS}, Required: true, Why: fmt.Sprintf("%d methods that are not getters/setters", nonGS)})
		}
		if total > 0 && allGS {
			// with an additional constructor both readings of "only getters/setters" are accepted
			exp = append(exp, &c10Exp{Kind: "dataClass", Required: !ctorOnly, Why: "only getters/setters"})
		}
		if total == 0 {
			exp = append(exp, &c10Exp{Kind: "lazyElement", Required: true, Why: "class without methods"})
		}
	}
	return exp
}

func c10Match(list []bs_domain.BadSmellModel, exp []*c10Exp, ignore []string, wantFile string) []engine.Violation {
	var vs []engine.Violation
	ign := map[string]bool{}
	for _, k := range ignore {
		ign[k] = true
	}
	for _, e := range exp {
		e.matched = false
	}
	for _, f := range list {
		if f.Bs == "refusedBequest" || f.Bs == "graphConnectedCall" {
			continue
		}
		if ign[f.Bs] {
			vs = append(vs, engine.V("ignore", "ignored-kind-reported", "finding of ignored kind %s reported", f.Bs))
			continue
		}
		if f.File != wantFile {
			vs = append(vs, engine.V("attributes", "file-"+f.Bs, "finding %s names file %q, want %q", f.Bs, f.File, wantFile))
		}
		line, _ := strconv.Atoi(f.Line)
		var hit *c10Exp
		for _, e := range exp {
			if e.matched || e.Kind != f.Bs {
				continue
			}
			if e.Lines != nil {
				ok := false
				for _, l := range e.Lines {
					if l == line {
						ok = true
					}
				}
				if !ok {
					continue
				}
			}
			sizeOK := e.Sizes == nil
			for _, sz := range e.Sizes {
				if sz == f.Size {
					sizeOK = true
				}
			}
			if hit == nil || sizeOK {
				hit = e
			}
			if sizeOK {
				break
			}
		}
		if hit == nil {
			// same kind expected at another line?
			kind := "unexpected-" + f.Bs
			for _, e := range exp {
				if !e.matched && e.Kind == f.Bs {
					kind = "wrong-line-" + f.Bs
				}
			}
			vs = append(vs, engine.V("findings", kind, "reported %s at line %q (size %d) is not warranted by the source", f.Bs, f.Line, f.Size))
			continue
		}
		hit.matched = true
		if hit.Sizes != nil {
			ok := false
			for _, s := range hit.Sizes {
				if s == f.Size {
					ok = true
				}
			}
			if !ok {
				vs = append(vs, engine.V("attributes", "size-"+f.Bs, "finding %s at line %s reports size %d, want one of %v (%s)", f.Bs, f.Line, f.Size, hit.Sizes, hit.Why))
			}
		}
	}
	for _, e := range exp {
		if e.Required && !e.matched && !ign[e.Kind] {
			vs = append(vs, engine.V("findings", "missing-"+e.Kind, "expected %s (%s) not reported", e.Kind, e.Why))
		}
	}
	return vs
}

func c10Check(files []FileSpec, cls *jg.Class, metas []*c10Meta, iface bool, ignore []string, mode string, ctorOnly bool) engine.Result {
	res := engine.Result{InputKey: filesKey(files) + "|" + strings.Join(ignore, ",") + "|" + mode, Nontrivial: true,
		Input: map[string]interface{}{"files": filesInput(files), "ignore": ignore, "mode": mode}}
	if why := validateJava(files); why != "" {
		res.Skipped = why
		return res
	}
	root, cleanup := materialise(files)
	defer cleanup()
	exp := c10Expected(cls, metas, iface, ctorOnly)
	src := filepath.Join(root, "src")
	render := func(l []bs_domain.BadSmellModel) string {
		var s []string
		for _, f := range l {
			s = append(s, fmt.Sprintf("%s@%s#%d", f.Bs, f.Line, f.Size))
		}
		return strings.Join(s, " ")
	}
	switch mode {
	case "api":
		app := bs.NewBadSmellApp()
		nodes := app.AnalysisPath(src)
		list := app.IdentifyBadSmell(nodes, ignore)
		res.Outcome = render(list)
		res.Violations = c10Match(list, exp, ignore, filepath.Join(src, "Big.java"))
	default:
		args := []string{"bs", "-p", "src"}
		if len(ignore) > 0 {
			args = append(args, "-x", strings.Join(ignore, ","))
		}
		if mode == "cli-sort" {
			args = append(args, "-s", "type")
		}
		r := runCLI(root, args...)
		if r.Exit != 0 {
			res.Outcome = "CLI-FAILED"
			res.Violations = append(res.Violations, engine.V("cli", "exit-status", "coca %v exited %d: %s", args, r.Exit, trimTo(r.Stderr, 500)))
			return res
		}
		b, err := os.ReadFile(filepath.Join(root, "coca_reporter", "bs.json"))
		if err != nil {
			res.Outcome = "NO-REPORT"
			res.Violations = append(res.Violations, engine.V("cli", "no-report", "coca_reporter/bs.json not written: %v", err))
			return res
		}
		var list []bs_domain.BadSmellModel
		if mode == "cli" {
			if string(b) != "null" {
				if err := json.Unmarshal(b, &list); err != nil {
					res.Violations = append(res.Violations, engine.V("cli", "report-unparsable", "bs.json: %v", err))
					return res
				}
			}
		} else {
			groups := map[string][]bs_domain.BadSmellModel{}
			if err := json.Unmarshal(b, &groups); err != nil {
				res.Violations = append(res.Violations, engine.V("cli", "report-unparsable", "bs.json (sorted): %v", err))
				return res
			}
			var keys []string
			for k := range groups {
				keys = append(keys, k)
			}
			sort.Strings(keys)
			for _, k := range keys {
				g := groups[k]
				for i, f := range g {
					if f.Bs != k {
						res.Violations = append(res.Violations, engine.V("sort", "wrong-group", "finding of kind %s listed under group %s", f.Bs, k))
					}
					if c10Sized[k] && i > 0 && g[i-1].Size < f.Size {
						res.Violations = append(res.Violations, engine.V("sort", "size-order-"+k, "group %s not in non-increasing size order: %d before %d", k, g[i-1].Size, f.Size))
					}
				}
				if len(g) == 0 {
					res.Violations = append(res.Violations, engine.V("sort", "empty-group", "group %s is empty", k))
				}
				list = append(list, g...)
			}
		}
		res.Outcome = render(list)
		res.Violations = append(res.Violations, c10Match(list, exp, ignore, "src/Big.java")...)
	}
	return res
}

func trimTo(s string, n int) string {
	if len(s) > n {
		return s[:n]
	}
	return s
}

func init() {
	engine.Register(&engine.Spec{
		ID:    "C10",
		Title: "Bad-smell findings match the documented thresholds exactly",
		Rule: "X1 over one generated class/interface: class shape (normal, only getters, no methods, getters+constructor) x method count {1,19,20,21} with getters mixed in x long method {29..32 lines, 4 layouts} x parameter count {4,5,6} " +
			"x top-level ifs {7,8,9} with nested/else-if decoys x top-level switches {7,8,9} with nested decoys x condition height {3,4,5} x nested complex condition x several sized findings x 12 layouts x ignore subsets (<=2 kinds quick, all 128 thorough) x {API, CLI, CLI -s type}; deviation-bounded. " +
			"Every case is non-trivial (thresholds are the alphabet). Distinct = (source, ignore set, mode).",
		Assumptions: []string{
			"'the line the declaration starts on' has two readings when annotations/modifiers stand on earlier lines: a longMethod finding is required/forbidden only where both agree; either line is accepted",
			"refusedBequest and graphConnectedCall findings are ignored (not in the statement); Description is not compared; dataClass size is not compared",
			"when a method reaches both the if and the switch threshold one or two repeatedSwitches findings are accepted",
			"constructors are not counted as methods; a class with only getters/setters and a constructor may or may not be a dataClass",
		},
		Sections: []engine.Section{{Name: "thresholds", KQuick: 3, KThor: 4, Gen: c10Gen}},
	})
}
