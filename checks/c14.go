package checks

import (
	"bytes"
	"encoding/json"
	"fmt"
	"os"
	"os/exec"
	"path/filepath"
	"regexp"
	"strconv"
	"strings"

	gitapp "github.com/modernizing/coca/pkg/application/git"
	"verif/engine"
)

var c14Authors = []string{"Ann", "Ann Lee", "李 雷", "R2 D2", "Joe 2020-01-01"}
var c14Subjects = []string{"plain subject", "fix(core): repair x", "see [abc1234] for details", "move a => b", "1 2 file", "DATE release", " create mode 100644 x", "thanks AUTHOR", "say \"hi\"", "handover from FULLAUTHOR DATE session notes", ""}
var c14Paths = []string{"a.txt", "d/a.txt", "d e/f g.txt", "d/{x}.txt", "a => b.txt", "2020 notes.txt", "src/Main.java", "d/ends in a blank "}

type gOp struct {
	Kind string // add | modify | delete | rename | binary | empty | merge
	Path string
	New  string
}

type gCommit struct {
	Author, Subject string
	Ops             []gOp
	Day             int
}

func gitEnv() []string {
	return append(os.Environ(), "GIT_CONFIG_GLOBAL=/dev/null", "GIT_CONFIG_NOSYSTEM=1", "TZ=UTC", "LC_ALL=C")
}

func runGit(dir string, stdin []byte, args ...string) (string, error) {
	cmd := exec.Command("git", args...)
	cmd.Dir = dir
	cmd.Env = gitEnv()
	if stdin != nil {
		cmd.Stdin = bytes.NewReader(stdin)
	}
	var so, se bytes.Buffer
	cmd.Stdout, cmd.Stderr = &so, &se
	err := cmd.Run()
	if err != nil {
		return so.String(), fmt.Errorf("git %v: %v: %s", args, err, se.String())
	}
	return so.String(), nil
}

// buildStream renders the history as a `git fast-import` stream. Renames are delete+add of the same blob
// (git's rename detection finds them, as for real-world commits).
func buildStream(h []gCommit) []byte {
	var sb bytes.Buffer
	mark := 0
	content := map[string]string{}
	executable := map[string]bool{}
	blob := func(data string) int {
		mark++
		fmt.Fprintf(&sb, "blob\nmark :%d\ndata %d\n%s\n", mark, len(data), data)
		return mark
	}
	last := 0
	first := 0
	for i, cm := range h {
		type fileCmd struct{ line string }
		var cmds []string
		merge := 0
		for _, op := range cm.Ops {
			switch op.Kind {
			case "add":
				data := fmt.Sprintf("line1 of %s\nline2\nline3\nline4\nline5\n", op.Path)
				content[op.Path] = data
				cmds = append(cmds, fmt.Sprintf("M 100644 :%d %s", blob(data), op.Path))
			case "modify":
				data := strings.Replace(content[op.Path], "line2\n", "", 1) + fmt.Sprintf("added in commit %d\nand more\n", i)
				content[op.Path] = data
				cmds = append(cmds, fmt.Sprintf("M 100644 :%d %s", blob(data), op.Path))
			case "delete":
				delete(content, op.Path)
				cmds = append(cmds, "D "+op.Path)
			case "rename":
				data := content[op.Path]
				delete(content, op.Path)
				content[op.New] = data
				cmds = append(cmds, "D "+op.Path, fmt.Sprintf("M 100644 :%d %s", blob(data), op.New))
			case "chmod":
				// the permission bits flip, the content stays: numstat 0 0, summary line ` mode change 100644 => 100755 path`
				executable[op.Path] = !executable[op.Path]
				cmds = append(cmds, fmt.Sprintf("M %s :%d %s", map[bool]string{true: "100755", false: "100644"}[executable[op.Path]], blob(content[op.Path]), op.Path))
			case "rename-chmod":
				// a pure rename that also flips the permission bits: the rename line is followed by a nameless mode-change line
				data := content[op.Path]
				delete(content, op.Path)
				content[op.New] = data
				executable[op.New] = !executable[op.Path]
				delete(executable, op.Path)
				cmds = append(cmds, "D "+op.Path, fmt.Sprintf("M %s :%d %s", map[bool]string{true: "100755", false: "100644"}[executable[op.New]], blob(data), op.New))
			case "binary":
				data := "\x00\x01\x02binary\x00" + op.Path
				content[op.Path] = data
				cmds = append(cmds, fmt.Sprintf("M 100644 :%d %s", blob(data), op.Path))
			case "merge":
				// a side branch with one commit adding a file, forked from the first commit
				mark++
				side := mark
				b := blob("side file\n")
				fmt.Fprintf(&sb, "commit refs/heads/side\nmark :%d\nauthor Side Dev <s@x> %d +0000\ncommitter Side Dev <s@x> %d +0000\ndata %d\n%s\nfrom :%d\nM 100644 :%d side/%d.txt\n\n",
					side, 1577836800+cm.Day*86400-3600, 1577836800+cm.Day*86400-3600, len("side work"), "side work", first, b, i)
				merge = side
			}
		}
		mark++
		ts := 1577836800 + cm.Day*86400
		fmt.Fprintf(&sb, "commit refs/heads/main\nmark :%d\nauthor %s <dev@example.com> %d +0000\ncommitter %s <dev@example.com> %d +0000\ndata %d\n%s\n", mark, cm.Author, ts, cm.Author, ts, len(cm.Subject), cm.Subject)
		if last != 0 {
			fmt.Fprintf(&sb, "from :%d\n", last)
		}
		if merge != 0 {
			fmt.Fprintf(&sb, "merge :%d\n", merge)
		}
		for _, l := range cmds {
			sb.WriteString(l + "\n")
		}
		sb.WriteString("\n")
		last = mark
		if first == 0 {
			first = mark
		}
	}
	return sb.Bytes()
}

func c14History(c *engine.C, maxDepth int) []gCommit {
	n := 1 + c.Choose(maxDepth, "commits")
	var h []gCommit
	exists := map[string]bool{}
	var order []string
	usedPath := 0
	for i := 0; i < n; i++ {
		pfx := fmt.Sprintf("c%d-", i)
		cm := gCommit{Day: i}
		cm.Author = c14Authors[c.Choose(len(c14Authors), pfx+"author")]
		subj := c14Subjects[c.Choose(len(c14Subjects), pfx+"subject")]
		subj = strings.ReplaceAll(subj, "DATE", fmt.Sprintf("2020-01-%02d", i+1))
		subj = strings.ReplaceAll(subj, "FULLAUTHOR", cm.Author) // the header's own "<author> <date>" text inside the subject
		subj = strings.ReplaceAll(subj, "AUTHOR", strings.Fields(cm.Author)[0])
		cm.Subject = subj
		var existing []string
		for _, p := range order {
			if exists[p] {
				existing = append(existing, p)
			}
		}
		type op struct {
			name string
			ops  []gOp
		}
		var menu []op
		newPath := func() string {
			pi := c.Choose(len(c14Paths), pfx+"path")
			p := c14Paths[pi]
			for exists[p] {
				p = fmt.Sprintf("n%d_%s", usedPath, strings.ReplaceAll(p, "/", "_"))
				usedPath++
			}
			return p
		}
		if len(existing) == 0 {
			menu = append(menu, op{"add", nil})
		} else {
			menu = append(menu, op{"modify", []gOp{{Kind: "modify", Path: existing[0]}}}, op{"add", nil}, op{"delete", []gOp{{Kind: "delete", Path: existing[0]}}},
				op{"rename-in-dir", nil}, op{"rename-across-dirs", nil}, op{"rename-to-root", nil}, op{"binary", nil}, op{"empty", []gOp{}}, op{"merge", []gOp{{Kind: "merge"}}},
				op{"modify+add", nil}, op{"rename+add-sorting-after", nil}, op{"rename+delete-sorting-after", nil},
				op{"chmod", []gOp{{Kind: "chmod", Path: existing[0]}}}, op{"chmod+add-sorting-after", nil}, op{"chmod+delete-of-another", nil}, op{"rename-with-chmod+add-sorting-after", nil})
		}
		o := menu[c.Choose(len(menu), pfx+"op")]
		switch o.name {
		case "add":
			o.ops = []gOp{{Kind: "add", Path: newPath()}}
		case "binary":
			o.ops = []gOp{{Kind: "binary", Path: "bin/" + fmt.Sprint(i) + ".dat"}}
		case "modify+add":
			o.ops = []gOp{{Kind: "modify", Path: existing[0]}, {Kind: "add", Path: newPath()}}
		case "rename+add-sorting-after":
			// a pure rename and a creation in one commit; the created path sorts after the new name, so its summary
			// line follows the rename line
			f := existing[0]
			o.ops = []gOp{{Kind: "rename", Path: f, New: filepath.Join(filepath.Dir(f), "moved_"+filepath.Base(f))}, {Kind: "add", Path: fmt.Sprintf("zz/created%d.txt", i)}}
		case "rename+delete-sorting-after":
			f := existing[0]
			o.ops = []gOp{{Kind: "rename", Path: f, New: "aa_first_" + filepath.Base(f)}}
			if len(existing) > 1 {
				o.ops = append(o.ops, gOp{Kind: "delete", Path: existing[len(existing)-1]})
			}
		case "chmod+add-sorting-after":
			// summary lines come in path order: the mode-change line precedes the create line
			o.ops = []gOp{{Kind: "chmod", Path: existing[0]}, {Kind: "add", Path: fmt.Sprintf("zz/created%d.txt", i)}}
		case "chmod+delete-of-another":
			o.ops = []gOp{{Kind: "chmod", Path: existing[0]}}
			if len(existing) > 1 {
				o.ops = append(o.ops, gOp{Kind: "delete", Path: existing[len(existing)-1]})
			}
		case "rename-with-chmod+add-sorting-after":
			f := existing[0]
			o.ops = []gOp{{Kind: "rename-chmod", Path: f, New: filepath.Join(filepath.Dir(f), "moved_"+filepath.Base(f))}, {Kind: "add", Path: fmt.Sprintf("zz/created%d.txt", i)}}
		case "rename-in-dir":
			f := existing[0]
			o.ops = []gOp{{Kind: "rename", Path: f, New: filepath.Join(filepath.Dir(f), "renamed_"+filepath.Base(f))}}
		case "rename-across-dirs":
			f := existing[0]
			o.ops = []gOp{{Kind: "rename", Path: f, New: filepath.Join("moved", filepath.Base(f))}}
		case "rename-to-root":
			f := existing[0]
			if !strings.Contains(f, "/") {
				o.ops = []gOp{{Kind: "rename", Path: f, New: filepath.Join("deep/er", f)}}
			} else {
				o.ops = []gOp{{Kind: "rename", Path: f, New: "root_" + filepath.Base(f)}}
			}
		}
		if o.name != "modify" && o.name != "add" {
			c.Tag("op=" + o.name)
		}
		cm.Ops = o.ops
		for xi := range cm.Ops {
			if cm.Ops[xi].Kind == "rename" || cm.Ops[xi].Kind == "rename-chmod" {
				// a rename never lands on a path that exists (git would show that as a delete plus a modify)
				for exists[cm.Ops[xi].New] {
					cm.Ops[xi].New += ".2"
				}
			}
		}
		for _, x := range cm.Ops {
			switch x.Kind {
			case "add", "binary":
				exists[x.Path] = true
				order = append(order, x.Path)
			case "delete":
				delete(exists, x.Path)
			case "rename", "rename-chmod":
				delete(exists, x.Path)
				exists[x.New] = true
				order = append(order, x.New)
			}
		}
		h = append(h, cm)
	}
	return h
}

var dateLike = regexp.MustCompile(`\d{4}-\d{2}-\d{2}`)

type c14Expect struct {
	Rev, Author, Date, Subject string
	Changes                    []gitapp.FileChange // Mode "?" = not compared (renames)
}

func c14Check(h []gCommit) engine.Result {
	var desc []string
	for _, cm := range h {
		var ops []string
		for _, o := range cm.Ops {
			ops = append(ops, strings.TrimSpace(o.Kind+" "+o.Path+" "+o.New))
		}
		desc = append(desc, fmt.Sprintf("%s | %q | %s", cm.Author, cm.Subject, strings.Join(ops, "; ")))
	}
	res := engine.Result{InputKey: strings.Join(desc, "\n"), Input: desc, Nontrivial: len(h) > 1}
	root, err := os.MkdirTemp(tmpRoot(), "mcgit")
	if err != nil {
		panic(err)
	}
	defer os.RemoveAll(root)
	repo := filepath.Join(root, "r.git")
	if _, err := runGit(root, nil, "init", "-q", "--bare", "--initial-branch=main", repo); err != nil {
		panic(err)
	}
	if _, err := runGit(repo, buildStream(h), "fast-import", "--quiet"); err != nil {
		res.Skipped = "fast-import rejected the generated stream: " + err.Error()
		return res
	}
	// ground truth from git plumbing, commit by commit
	logOut, err := runGit(repo, nil, "log", "--reverse", "--date=short", "--format=%h%x00%aN%x00%ad%x00%s%x00%P%x01", "main")
	if err != nil {
		panic(err)
	}
	var want []c14Expect
	kinds := map[string]string{} // subject-index -> not needed
	_ = kinds
	ci := 0
	for _, rec := range strings.Split(logOut, "\x01") {
		rec = strings.TrimLeft(rec, "\n")
		if rec == "" {
			continue
		}
		f := strings.Split(rec, "\x00")
		if len(f) < 5 {
			panic("c14: unexpected log record " + rec)
		}
		isMerge := len(strings.Fields(f[4])) > 1
		if f[1] == "Side Dev" {
			// the side-branch commit: an ordinary non-merge commit with one added file
			ns, _ := runGit(repo, nil, "show", "--numstat", "--format=", f[0])
			e := c14Expect{Rev: f[0], Author: f[1], Date: f[2], Subject: f[3]}
			e.Changes = parseNumstat(ns, map[string]string{})
			for i := range e.Changes {
				e.Changes[i].Mode = "create"
			}
			want = append(want, e)
			continue
		}
		cm := h[ci]
		ci++
		if isMerge {
			continue
		}
		ns, err := runGit(repo, nil, "show", "--numstat", "--format=", f[0])
		if err != nil {
			panic(err)
		}
		modes := map[string]string{}
		for _, o := range cm.Ops {
			switch o.Kind {
			case "add", "binary":
				modes[o.Path] = "create"
			case "delete":
				modes[o.Path] = "delete"
			}
		}
		e := c14Expect{Rev: f[0], Author: f[1], Date: f[2], Subject: f[3]}
		e.Changes = parseNumstat(ns, modes)
		if len(e.Changes) == 0 {
			continue // empty commit
		}
		want = append(want, e)
	}
	// the tool, through its real CLI (the exact git invocation of cmd/git.go)
	r := runCLI(repo, "git")
	if r.Exit != 0 {
		res.Outcome = "CLI-FAILED"
		res.Violations = append(res.Violations, engine.V("cli", "exit-status", "coca git exited %d: %s", r.Exit, trimTo(r.Stderr+r.Stdout, 800)))
		return res
	}
	b, err := os.ReadFile(filepath.Join(repo, "coca_reporter", "commits.json"))
	if err != nil {
		res.Outcome = "NO-REPORT"
		res.Violations = append(res.Violations, engine.V("cli", "no-report", "commits.json not written: %v", err))
		return res
	}
	var got []gitapp.CommitMessage
	if string(b) != "null" {
		if err := json.Unmarshal(b, &got); err != nil {
			res.Violations = append(res.Violations, engine.V("cli", "report-unparsable", "commits.json: %v", err))
			return res
		}
	}
	render := func(rev, a, d, s string, chs []gitapp.FileChange) string {
		var cs []string
		for _, c := range chs {
			cs = append(cs, fmt.Sprintf("%d/%d %q %s", c.Added, c.Deleted, c.File, c.Mode))
		}
		sortStrings(cs)
		return fmt.Sprintf("[%s] %q %s %q {%s}", rev, a, d, s, strings.Join(cs, "; "))
	}
	var gl, wl []string
	for _, g := range got {
		gl = append(gl, render(g.Rev, g.Author, g.Date, g.Message, g.Changes))
	}
	for _, w := range want {
		wl = append(wl, render(w.Rev, w.Author, w.Date, w.Subject, w.Changes))
	}
	res.Outcome = strings.Join(gl, "\n")
	detail := fmt.Sprintf("\nparsed:\n  %s\ngit says:\n  %s", strings.Join(gl, "\n  "), strings.Join(wl, "\n  "))
	if len(got) != len(want) {
		kind := "commit-dropped"
		if len(got) > len(want) {
			kind = "commit-invented"
		}
		res.Violations = append(res.Violations, engine.V("commits", kind, "%d commits parsed, %d non-merge commits with changes in the log%s", len(got), len(want), detail))
		return res
	}
	for i, w := range want {
		g := got[i]
		if g.Rev != w.Rev {
			res.Violations = append(res.Violations, engine.V("commits", "order-or-hash", "entry %d has hash %q, log order says %q%s", i, g.Rev, w.Rev, detail))
			continue
		}
		if dateLike.MatchString(w.Author) && (g.Author != w.Author || g.Date != w.Date || g.Message != w.Subject) {
			// one failure class for the inherent ambiguity of "[%h] %aN %ad %s" when the author name itself contains a date
			res.Violations = append(res.Violations, engine.V("header", "author-name-contains-a-date", "commit %s: parsed author %q date %q subject %q; git prints author %q date %q subject %q", w.Rev, g.Author, g.Date, g.Message, w.Author, w.Date, w.Subject))
		} else if g.Author != w.Author {
			res.Violations = append(res.Violations, engine.V("header", "author", "commit %s: author %q, git prints %q", w.Rev, g.Author, w.Author))
		}
		if dateLike.MatchString(w.Author) {
			// covered above
		} else if g.Date != w.Date {
			res.Violations = append(res.Violations, engine.V("header", "date", "commit %s: date %q, git prints %q", w.Rev, g.Date, w.Date))
		}
		if !dateLike.MatchString(w.Author) && g.Message != w.Subject {
			res.Violations = append(res.Violations, engine.V("header", "subject", "commit %s: subject %q, git prints %q", w.Rev, g.Message, w.Subject))
		}
		// changes as a multiset keyed by path text
		wm := map[string]gitapp.FileChange{}
		for _, c := range w.Changes {
			wm[c.File] = c
		}
		seen := map[string]int{}
		for _, c := range g.Changes {
			seen[c.File]++
			wc, ok := wm[c.File]
			if !ok {
				res.Violations = append(res.Violations, engine.V("changes", "foreign-change", "commit %s: change %q does not belong to this commit%s", w.Rev, c.File, detail))
				continue
			}
			if c.Added != wc.Added || c.Deleted != wc.Deleted {
				res.Violations = append(res.Violations, engine.V("changes", "line-counts", "commit %s, %q: +%d -%d parsed, git reports +%d -%d", w.Rev, c.File, c.Added, c.Deleted, wc.Added, wc.Deleted))
			}
			if wc.Mode != "?" && c.Mode != wc.Mode {
				res.Violations = append(res.Violations, engine.V("changes", "mode", "commit %s, %q: mode %q parsed, expected %q", w.Rev, c.File, c.Mode, wc.Mode))
			}
		}
		for p := range wm {
			if seen[p] == 0 {
				res.Violations = append(res.Violations, engine.V("changes", "missing-change", "commit %s: change of %q missing%s", w.Rev, p, detail))
			} else if seen[p] > 1 {
				res.Violations = append(res.Violations, engine.V("changes", "duplicate-change", "commit %s: %q listed %d times", w.Rev, p, seen[p]))
			}
		}
	}
	return res
}

func sortStrings(s []string) {
	for i := 1; i < len(s); i++ {
		for j := i; j > 0 && s[j-1] > s[j]; j-- {
			s[j-1], s[j] = s[j], s[j-1]
		}
	}
}

func parseNumstat(out string, modes map[string]string) []gitapp.FileChange {
	var r []gitapp.FileChange
	for _, l := range strings.Split(out, "\n") {
		f := strings.SplitN(l, "\t", 3)
		if len(f) != 3 {
			continue
		}
		a, _ := strconv.Atoi(f[0])
		d, _ := strconv.Atoi(f[1])
		mode, ok := modes[f[2]]
		if !ok {
			mode = ""
			if strings.Contains(f[2], " => ") {
				mode = "?"
			}
		}
		r = append(r, gitapp.FileChange{Added: a, Deleted: d, File: f[2], Mode: mode})
	}
	return r
}

func c14Gen(dq, dt int) func(c *engine.C) engine.Case {
	return func(c *engine.C) engine.Case {
		d := dq
		if !c.Quick() {
			d = dt
		}
		h := c14History(c, d)
		return func() engine.Result { return c14Check(h) }
	}
}

func init() {
	engine.Register(&engine.Spec{
		ID:    "C14",
		Title: "Commit-log parsing preserves every commit and every file change",
		Rule: "X1 over real git histories built with `git fast-import` (1..3 commits quick / 1..4 thorough; per commit: 5 author spellings x 9 subject shapes x operations add/modify/delete/rename in directory, across directories, to and from the root/binary/empty/merge of a side branch/two changes x 7 path spellings), deviation-bounded; " +
			"each history is parsed by `coca git` run in a child process inside the repository (the exact invocation of cmd/git.go) and compared commit by commit with git plumbing (`git log --format` with NUL separators, `git show --numstat`). Non-trivial = at least two commits.",
		Assumptions: []string{
			"git 2.39 with an empty configuration (GIT_CONFIG_GLOBAL=/dev/null), TZ=UTC",
			"Mode of renamed paths is not compared; the textual form of a renamed path is whatever git prints",
			"paths are ASCII (git would C-quote others); author names and subjects may be non-ASCII",
		},
		Sections: []engine.Section{{Name: "histories", KQuick: 3, KThor: 4, Gen: c14Gen(3, 4)}},
	})
}
