package checks

import (
	"fmt"
	"path/filepath"
	"strings"
	"unicode/utf8"

	"github.com/modernizing/coca/pkg/domain/core_domain"
	"verif/engine"
	jg "verif/javagen"
)

// c02 project: app.Svc (under test), app.Helper (same-package project class), other.Tool (imported project
// class), lib.Repo (imported, not part of the project).

func site(kind, name string) *jg.Site { return &jg.Site{Kind: kind, Name: name} }
func siteR(kind, name, typ, pkg string) *jg.Site {
	return &jg.Site{Kind: kind, Name: name, CheckRecv: true, RecvType: typ, RecvPkg: pkg}
}

var c02ExprNames = []string{"implicit", "this-call", "field-imported", "field-project", "param", "local", "static", "chained",
	"nested-arg", "new", "new-with-arg-call", "lambda", "this-field", "param-project", "new-generic", "new-qualified", "new-then-call", "new-in-lambda", "new-as-argument", "local-of-declared-type-initialised-with-other-new", "field-of-project-interface-via-on-demand-import", "final-local", "parameter-used-after-being-passed-next-to-a-creation", "parameter-used-after-being-passed-to-a-constructor-next-to-a-creation", "typed-lambda-parameter-named-like-a-field", "local-of-an-imported-type-with-a-dollar-in-its-name"}

// c02Expr returns (prefix statements needed before, expression fragments).
func c02Expr(kind string, uniq string) (pre []jg.Stmt, e []jg.Frag) {
	switch kind {
	case "implicit":
		e = []jg.Frag{jg.S(siteR("call", "doIt", "Svc", "app")), jg.T("()")}
	case "field-of-project-interface-via-on-demand-import":
		// the declared type is a project interface of another package, visible only through `import app.api.*;`
		e = []jg.Frag{jg.T("notifier."), jg.S(siteR("call", "send", "Notifier", "app.api")), jg.T("()")}
	case "local-of-an-imported-type-with-a-dollar-in-its-name":
		v := "ds" + uniq
		pre = []jg.Stmt{jg.St(jg.T("Data$Source " + v + " = null;"))}
		e = []jg.Frag{jg.T(v + "."), jg.S(siteR("call", "open", "Data$Source", "lib")), jg.T("()")}
	case "final-local":
		v := "fl" + uniq
		pre = []jg.Stmt{jg.St(jg.T("final Tool " + v + " = null;"))}
		e = []jg.Frag{jg.T(v + "."), jg.S(siteR("call", "use", "Tool", "other")), jg.T("()")}
	case "parameter-used-after-being-passed-next-to-a-creation":
		// `doIt3(pr, new Helper())` must not change what `pr` is
		pre = []jg.Stmt{jg.St(jg.S(siteR("call", "doIt3", "Svc", "app")), jg.T("(pr, new "), jg.S(site("new", "Helper")), jg.T("());"))}
		e = []jg.Frag{jg.T("pr."), jg.S(siteR("call", "find", "Repo", "lib")), jg.T("()")}
	case "parameter-used-after-being-passed-to-a-constructor-next-to-a-creation":
		// the same inside the argument list of a constructor call
		pre = []jg.Stmt{jg.St(jg.T("Object w"+uniq+" = new "), jg.S(site("new", "Wrapper")), jg.T("(pr, new "), jg.S(site("new", "Helper")), jg.T("());"))}
		e = []jg.Frag{jg.T("pr."), jg.S(siteR("call", "find", "Repo", "lib")), jg.T("()")}
	case "this-call":
		e = []jg.Frag{jg.T("this."), jg.S(site("call", "doIt")), jg.T("()")}
	case "field-imported":
		e = []jg.Frag{jg.T("repo."), jg.S(siteR("call", "find", "Repo", "lib")), jg.T("()")}
	case "field-project":
		e = []jg.Frag{jg.T("helper."), jg.S(siteR("call", "help", "Helper", "app")), jg.T("()")}
	case "param":
		e = []jg.Frag{jg.T("pr."), jg.S(siteR("call", "find", "Repo", "lib")), jg.T("()")}
	case "param-project":
		e = []jg.Frag{jg.T("pt."), jg.S(siteR("call", "use", "Tool", "other")), jg.T("()")}
	case "local":
		v := "lt" + uniq
		pre = []jg.Stmt{jg.St(jg.T("Tool " + v + " = null;"))}
		e = []jg.Frag{jg.T(v + "."), jg.S(siteR("call", "use", "Tool", "other")), jg.T("()")}
	case "static":
		e = []jg.Frag{jg.T("Tool."), jg.S(site("call", "make")), jg.T("()")}
	case "chained":
		e = []jg.Frag{jg.T("repo."), jg.S(siteR("call", "find", "Repo", "lib")), jg.T("()."), jg.S(site("call", "name")), jg.T("()")}
	case "nested-arg":
		e = []jg.Frag{jg.S(siteR("call", "doIt2", "Svc", "app")), jg.T("(repo."), jg.S(siteR("call", "find", "Repo", "lib")), jg.T("())")}
	case "new":
		e = []jg.Frag{jg.T("new "), jg.S(site("new", "Helper")), jg.T("()")}
	case "new-with-arg-call":
		e = []jg.Frag{jg.T("new "), jg.S(site("new", "Helper")), jg.T("(repo."), jg.S(siteR("call", "find", "Repo", "lib")), jg.T("())")}
	case "local-of-declared-type-initialised-with-other-new":
		// the receiver's DECLARED type counts, not the type that happens to be created
		v := "sub" + uniq
		pre = []jg.Stmt{jg.St(jg.T("Repo " + v + " = new "), jg.S(site("new", "SpecialRepo")), jg.T("();"))}
		e = []jg.Frag{jg.T(v + "."), jg.S(siteR("call", "find", "Repo", "lib")), jg.T("()")}
	case "new-generic":
		e = []jg.Frag{jg.T("new "), jg.S(site("new", "Repo")), jg.T("<String>()")}
	case "new-qualified":
		e = []jg.Frag{jg.T("new other."), jg.S(site("new", "Tool")), jg.T("()")}
	case "new-then-call":
		e = []jg.Frag{jg.T("new "), jg.S(site("new", "Helper")), jg.T("()."), jg.S(site("call", "help")), jg.T("()")}
	case "new-in-lambda":
		e = []jg.Frag{jg.T("items."), jg.S(site("call", "forEach")), jg.T("(it -> new "), jg.S(site("new", "Helper")), jg.T("())")}
	case "new-as-argument":
		e = []jg.Frag{jg.S(siteR("call", "doIt2", "Svc", "app")), jg.T("(new "), jg.S(site("new", "Helper")), jg.T("())")}
	case "lambda":
		e = []jg.Frag{jg.T("items."), jg.S(site("call", "forEach")), jg.T("(it -> it."), jg.S(site("call", "run")), jg.T("())")}
	case "typed-lambda-parameter-named-like-a-field":
		// `helper` is also a field of type Helper: inside the lambda the explicitly typed parameter is meant
		e = []jg.Frag{jg.T("items."), jg.S(site("call", "forEach")), jg.T("((Tool helper) -> helper."), jg.S(siteR("call", "use", "Tool", "other")), jg.T("())")}
	case "this-field":
		e = []jg.Frag{jg.T("this.repo."), jg.S(site("call", "find")), jg.T("()")}
	}
	return
}

var c02StmtNames = []string{"expr-stmt", "local-init", "decl-then-assign", "if-else", "for", "while", "switch", "try-catch", "return",
	"split-lines", "nonascii-prefix", "two-on-a-line"}

func c02Stmt(kind string, uniq string, e []jg.Frag) []jg.Stmt {
	cat := func(parts ...interface{}) jg.Stmt {
		var fr []jg.Frag
		for _, p := range parts {
			switch x := p.(type) {
			case string:
				fr = append(fr, jg.T(x))
			case []jg.Frag:
				fr = append(fr, x...)
			case jg.Frag:
				fr = append(fr, x)
			}
		}
		return jg.Stmt{Frags: fr}
	}
	switch kind {
	case "expr-stmt":
		return []jg.Stmt{cat(e, ";")}
	case "local-init":
		return []jg.Stmt{cat("Object o"+uniq+" = ", e, ";")}
	case "decl-then-assign":
		return []jg.Stmt{cat("Object a" + uniq + ";"), cat("a"+uniq+" = ", e, ";")}
	case "if-else":
		return []jg.Stmt{cat("if (flag) {\n    ", e, ";\n} else {\n    ", jg.S(siteR("call", "other", "Svc", "app")), "();\n}")}
	case "for":
		return []jg.Stmt{cat("for (int i"+uniq+" = 0; i"+uniq+" < 2; i"+uniq+"++) {\n    ", e, ";\n}")}
	case "while":
		return []jg.Stmt{cat("while (flag) {\n    ", e, ";\n}")}
	case "switch":
		return []jg.Stmt{cat("switch (n) {\n    case 1:\n        ", e, ";\n        break;\n    default:\n        break;\n}")}
	case "try-catch":
		return []jg.Stmt{cat("try {\n    ", e, ";\n} catch (Exception ex"+uniq+") {\n    ", jg.S(siteR("call", "handle", "Svc", "app")), "();\n}")}
	case "return":
		return []jg.Stmt{cat("if (flag) return ", e, ";")}
	case "split-lines":
		return []jg.Stmt{cat("Object s"+uniq+" =\n        ", e, ";")}
	case "nonascii-prefix":
		return []jg.Stmt{cat("String u"+uniq+" = \"é✓ü\"; /* ß */ ", e, ";")}
	case "two-on-a-line":
		return []jg.Stmt{cat(e, "; ", jg.S(siteR("call", "other", "Svc", "app")), "();")}
	}
	return nil
}

type c02Project struct {
	files []FileSpec
	svc   *jg.Class
	tags  []string
}

func c02Gen(c *engine.C) engine.Case {
	layout, _ := pickLayout(c)
	svc := &jg.Class{Pkg: "app", Name: "Svc", Kind: "class", Mods: []string{"public"},
		Imports: []string{"lib.Repo", "other.Tool", "java.util.List", "app.api.*", "lib.Data$Source"}}
	switch engine.Pick(c, "import-suffix-collision", "none", "type-name-ends-with-imported-type-name", "type-name-ends-with-own-method-name") {
	case "type-name-ends-with-imported-type-name":
		svc.Imports = append([]string{"lib2.SuperRepo"}, svc.Imports...)
		c.Tag("import-suffix-collision")
	case "type-name-ends-with-own-method-name":
		// an imported type whose simple name merely ends with the name of a method called without a receiver
		svc.Imports = append([]string{"extra.UndoIt"}, svc.Imports...)
		c.Tag("import-suffix-collision")
	}
	svc.Members = append(svc.Members,
		jg.Member{Field: &jg.Field{Mods: []string{"private"}, Type: "Repo", Name: "repo"}},
		jg.Member{Field: &jg.Field{Mods: []string{"private"}, Type: "Helper", Name: "helper"}},
		jg.Member{Field: &jg.Field{Mods: []string{"private"}, Type: "boolean", Name: "flag"}},
		jg.Member{Field: &jg.Field{Mods: []string{"private"}, Type: "Helper", Name: "aux"}},
		jg.Member{Field: &jg.Field{Mods: []string{"private"}, Type: "Notifier", Name: "notifier"}},
	)
	reuse := engine.PickTag(c, "name-reuse", "none", "param-then-local", "param-shadows-field", "locals-in-siblings", "local-shadows-field", "field-then-param-other-method", "constructor-names-then-fields-in-method", "parameter-then-field-in-the-next-method-which-has-no-parameters")
	if reuse == "constructor-names-then-fields-in-method" {
		// a constructor with a parameter and a local named like fields of OTHER types, before the methods that use the fields
		svc.Members = append(svc.Members, jg.Member{Method: &jg.Method{Mods: []string{"public"}, IsCtor: true, Name: "Svc",
			Params: []jg.Param{{Type: "Tool", Name: "aux"}},
			Body: []jg.Stmt{jg.St(jg.T("aux."), jg.S(siteR("call", "use", "Tool", "other")), jg.T("();")),
				jg.St(jg.T("Tool helper = null;")), jg.St(jg.T("helper."), jg.S(siteR("call", "use", "Tool", "other")), jg.T("();"))}}})
	}
	nMethods := []int{2, 1, 3}[c.Choose(3, "methods")]
	for mi := 0; mi < nMethods; mi++ {
		m := &jg.Method{Mods: []string{"public"}, Ret: "Object", Name: fmt.Sprintf("m%d", mi),
			Params: []jg.Param{{Type: "Repo", Name: "pr"}, {Type: "Tool", Name: "pt"}, {Type: "int", Name: "n"}, {Type: "List<Runnable>", Name: "items"}}}
		if mi == 2 {
			// third method: an overload of m1 (same name, other parameter list) or a constructor
			if c.Bool("m2-is-ctor") {
				m.IsCtor, m.Ret, m.Name = true, "", "Svc"
				c.Tag("ctor")
			} else {
				m.Name = "m1"
				m.Params = m.Params[:3]
				c.Tag("overload")
			}
		}
		ns := []int{1, 2, 3}[c.Choose(3, fmt.Sprintf("m%d-stmts", mi))]
		for si := 0; si < ns; si++ {
			uniq := fmt.Sprintf("%d%d", mi, si)
			ek := c02ExprNames[c.Choose(len(c02ExprNames), fmt.Sprintf("m%d-s%d-expr", mi, si))]
			sk := c02StmtNames[c.Choose(len(c02StmtNames), fmt.Sprintf("m%d-s%d-stmt", mi, si))]
			pre, e := c02Expr(ek, uniq)
			m.Body = append(m.Body, pre...)
			m.Body = append(m.Body, c02Stmt(sk, uniq, e)...)
		}
		// name-reuse scenarios
		switch reuse {
		case "constructor-names-then-fields-in-method":
			if mi == 0 {
				m.Body = append(m.Body, jg.St(jg.T("aux."), jg.S(siteR("call", "help", "Helper", "app")), jg.T("();")),
					jg.St(jg.T("helper."), jg.S(siteR("call", "help", "Helper", "app")), jg.T("();")))
			}
		case "param-then-local":
			if mi == 0 {
				m.Params = append(m.Params, jg.Param{Type: "Repo", Name: "v"})
				m.Body = append(m.Body, jg.St(jg.T("v."), jg.S(siteR("call", "find", "Repo", "lib")), jg.T("();")))
			} else if mi == 1 {
				m.Body = append(m.Body, jg.St(jg.T("Helper v = null;")), jg.St(jg.T("v."), jg.S(siteR("call", "help", "Helper", "app")), jg.T("();")))
			}
		case "param-shadows-field":
			if mi == 1 {
				m.Params = append(m.Params, jg.Param{Type: "Helper", Name: "repo"})
				m.Body = []jg.Stmt{jg.St(jg.T("repo."), jg.S(siteR("call", "help", "Helper", "app")), jg.T("();"))}
			}
		case "locals-in-siblings":
			if mi == 0 {
				m.Body = append(m.Body, jg.St(jg.T("Repo w = null;")), jg.St(jg.T("w."), jg.S(siteR("call", "find", "Repo", "lib")), jg.T("();")))
			} else if mi == 1 {
				m.Body = append(m.Body, jg.St(jg.T("Helper w = null;")), jg.St(jg.T("w."), jg.S(siteR("call", "help", "Helper", "app")), jg.T("();")))
			}
		case "local-shadows-field":
			if mi == 1 {
				m.Body = []jg.Stmt{jg.St(jg.T("Helper repo = null;")), jg.St(jg.T("repo."), jg.S(siteR("call", "help", "Helper", "app")), jg.T("();"))}
			}
		case "field-then-param-other-method":
			// m0 has a parameter named like nothing else; m1 uses the field `helper` although m0 declared a parameter `helper` of another type
			if mi == 0 {
				m.Params = append(m.Params, jg.Param{Type: "Tool", Name: "aux"})
				m.Body = append(m.Body, jg.St(jg.T("aux."), jg.S(siteR("call", "use", "Tool", "other")), jg.T("();")))
			} else if mi == 1 {
				m.Body = append(m.Body, jg.St(jg.T("aux."), jg.S(siteR("call", "help", "Helper", "app")), jg.T("();")))
			}
		}
		if reuse == "parameter-then-field-in-the-next-method-which-has-no-parameters" && mi == 0 {
			m.Params = append(m.Params, jg.Param{Type: "Tool", Name: "aux"})
			m.Body = append(m.Body, jg.St(jg.T("aux."), jg.S(siteR("call", "use", "Tool", "other")), jg.T("();")),
				jg.St(jg.T("Tool helper = null;")), jg.St(jg.T("helper."), jg.S(siteR("call", "use", "Tool", "other")), jg.T("();")))
		}
		if !m.IsCtor {
			m.Body = append(m.Body, jg.St(jg.T("return null;")))
		}
		svc.Members = append(svc.Members, jg.Member{Method: m})
		if reuse == "parameter-then-field-in-the-next-method-which-has-no-parameters" && mi == 0 {
			// directly behind it: a method with an empty parameter list that uses the fields of those names
			svc.Members = append(svc.Members, jg.Member{Method: &jg.Method{Mods: []string{"public"}, Ret: "void", Name: "noArgs",
				Body: []jg.Stmt{jg.St(jg.T("aux."), jg.S(siteR("call", "help", "Helper", "app")), jg.T("();")),
					jg.St(jg.T("helper."), jg.S(siteR("call", "help", "Helper", "app")), jg.T("();"))}}})
		}
		// what follows the function: calls written there belong to no named function
		switch engine.PickTag(c, fmt.Sprintf("after-m%d", mi), "nothing", "field-initialised-by-call", "field-initialised-by-new", "instance-initialiser", "static-initialiser", "instance-initialiser-with-a-local-named-like-a-field") {
		case "instance-initialiser-with-a-local-named-like-a-field":
			svc.Members = append(svc.Members, jg.Member{Raw: "{\n    Tool helper = null;\n}"})
		case "field-initialised-by-call":
			svc.Members = append(svc.Members, jg.Member{Field: &jg.Field{Mods: []string{"private"}, Type: "Tool", Name: fmt.Sprintf("later%d", mi), Init: []jg.Frag{jg.T("Tool.make()")}}})
		case "field-initialised-by-new":
			svc.Members = append(svc.Members, jg.Member{Field: &jg.Field{Mods: []string{"private"}, Type: "Helper", Name: fmt.Sprintf("fresh%d", mi), Init: []jg.Frag{jg.T("new Helper()")}}})
		case "instance-initialiser":
			svc.Members = append(svc.Members, jg.Member{Raw: "{\n    helper.help();\n}"})
		case "static-initialiser":
			svc.Members = append(svc.Members, jg.Member{Raw: "static {\n    Tool.make();\n}"})
		}
	}
	// callee stubs so that the unit is self-consistent (no call sites inside)
	for _, stub := range []string{"doIt", "other", "handle"} {
		svc.Members = append(svc.Members, jg.Member{Method: &jg.Method{Mods: []string{"private"}, Ret: "Object", Name: stub, Body: []jg.Stmt{jg.St(jg.T("return null;"))}}})
	}
	svc.Members = append(svc.Members, jg.Member{Method: &jg.Method{Mods: []string{"private"}, Ret: "Object", Name: "doIt3", Params: []jg.Param{{Type: "Object", Name: "x"}, {Type: "Object", Name: "y"}}, Body: []jg.Stmt{jg.St(jg.T("return y;"))}}})
	svc.Members = append(svc.Members, jg.Member{Method: &jg.Method{Mods: []string{"private"}, Ret: "Object", Name: "doIt2", Params: []jg.Param{{Type: "Object", Name: "x"}}, Body: []jg.Stmt{jg.St(jg.T("return x;"))}}})

	helper := &jg.Class{Pkg: "app", Name: "Helper", Kind: "class", Mods: []string{"public"},
		Members: []jg.Member{{Method: &jg.Method{Mods: []string{"public"}, Ret: "Object", Name: "help", Body: []jg.Stmt{jg.St(jg.T("return null;"))}}}}}
	tool := &jg.Class{Pkg: "other", Name: "Tool", Kind: "class", Mods: []string{"public"},
		Members: []jg.Member{{Method: &jg.Method{Mods: []string{"public"}, Ret: "Object", Name: "use", Body: []jg.Stmt{jg.St(jg.T("return null;"))}}},
			{Method: &jg.Method{Mods: []string{"public", "static"}, Ret: "Tool", Name: "make", Body: []jg.Stmt{jg.St(jg.T("return null;"))}}}}}
	files := []FileSpec{
		{Path: "app/Svc.java", Content: jg.Print(svc, layout)},
		{Path: "app/Helper.java", Content: jg.Print(helper, jg.DefaultLayout())},
		{Path: "other/Tool.java", Content: jg.Print(tool, jg.DefaultLayout())},
		{Path: "app/api/Notifier.java", Content: "package app.api;\n\npublic interface Notifier {\n    Object send();\n}\n"},
		{Path: "app/api/Mailer.java", Content: "package app.api;\n\npublic class Mailer implements Notifier {\n    public Object send() {\n        return null;\n    }\n}\n"},
	}
	if c.Bool("own-package-declares-a-class-named-like-an-imported-one") {
		// app.Tool next to the explicitly imported other.Tool: the single-type import decides what `Tool` means in Svc
		c.Tag("same-simple-name-in-own-package")
		files = append(files, FileSpec{Path: "app/Tool.java", Content: "package app;\n\npublic class Tool {\n    public Object use() {\n        return null;\n    }\n\n    public static Tool make() {\n        return null;\n    }\n}\n"})
	}
	return func() engine.Result { return c02Check(files, svc, c02Mode) }
}

// c02Mode: "api" (in-process passes) or "cli" (`coca analysis -p .` in a child process, deps.json); set per section.
var c02Mode = "api"

func c02GenCLI(c *engine.C) engine.Case {
	cs := c02Gen(c)
	return func() engine.Result {
		c02Mode = "cli"
		defer func() { c02Mode = "api" }()
		return cs()
	}
}

func c02Check(files []FileSpec, svc *jg.Class, mode string) engine.Result {
	res := engine.Result{InputKey: filesKey(files), Input: filesInput(files[:1]), Nontrivial: true}
	if why := validateJava(files); why != "" {
		res.Skipped = why
		return res
	}
	root, cleanup := materialise(files)
	defer cleanup()
	var full []core_domain.CodeDataStruct
	if mode == "cli" {
		r := runCLI(root, "analysis", "-p", ".")
		if r.Exit != 0 {
			res.Outcome = "CLI-FAILED"
			res.Violations = append(res.Violations, engine.V("cli", "exit-status", "coca analysis exited %d: %s", r.Exit, trimTo(r.Stderr+r.Stdout, 600)))
			return res
		}
		if err := readReport(root, "deps.json", &full); err != nil {
			res.Violations = append(res.Violations, engine.V("cli", "no-report", "deps.json: %v", err))
			return res
		}
	} else {
		all := absFiles(root, files, nil)
		idents := identPass(all)
		full = fullPass(idents, []string{filepath.Join(root, "app/Svc.java")})
	}
	var node *core_domain.CodeDataStruct
	for i := range full {
		if full[i].NodeName == "Svc" {
			node = &full[i]
		}
	}
	if node == nil {
		res.Outcome = "NO-NODE"
		res.Violations = append(res.Violations, engine.V("functions", "type-missing", "no model entry for app.Svc"))
		return res
	}
	var out strings.Builder
	for _, m := range svc.Methods() {
		// locate the function entry by name and declaration line
		var fn *core_domain.CodeFunction
		cnt := 0
		for i := range node.Functions {
			f := &node.Functions[i]
			if f.Name == m.Name && f.Position.StartLine >= m.DeclPos.Line && f.Position.StartLine <= m.NamePos.Line && len(f.Parameters) == len(m.Params) {
				fn = f
				cnt++
			}
		}
		if cnt != 1 {
			res.Violations = append(res.Violations, engine.V("functions", "entry-count", "function %s (line %d): %d matching entries", m.Name, m.NamePos.Line, cnt))
			continue
		}
		fmt.Fprintf(&out, "%s@%d:", m.Name, m.NamePos.Line)
		for _, cl := range fn.FunctionCalls {
			fmt.Fprintf(&out, " [%s|%s|%s|%d:%d-%d]", cl.Package, cl.NodeName, cl.FunctionName, cl.Position.StartLine, cl.Position.StartLinePosition, cl.Position.StopLinePosition)
		}
		out.WriteString("\n")
		if len(fn.FunctionCalls) != len(m.Sites) {
			var exp, got []string
			for _, s := range m.Sites {
				exp = append(exp, s.Kind+":"+s.Name)
			}
			for _, cl := range fn.FunctionCalls {
				if cl.FunctionName == "" {
					got = append(got, "new:"+cl.NodeName)
				} else {
					got = append(got, "call:"+cl.FunctionName)
				}
			}
			kind := "fewer"
			if len(fn.FunctionCalls) > len(m.Sites) {
				kind = "more"
			}
			res.Violations = append(res.Violations, engine.Violation{Clause: "call-sequence", Kind: kind,
				Detail: fmt.Sprintf("function %s: recorded %v, written %v", m.Name, got, exp), Expected: exp, Observed: got})
			continue
		}
		for i, s := range m.Sites {
			cl := fn.FunctionCalls[i]
			if s.Kind == "new" {
				if cl.FunctionName != "" || cl.NodeName != s.Name {
					res.Violations = append(res.Violations, engine.V("call-sequence", "creation-mismatch", "function %s site %d: expected creation of %s, recorded node=%q fn=%q", m.Name, i, s.Name, cl.NodeName, cl.FunctionName))
				}
				continue
			}
			if cl.FunctionName != s.Name {
				res.Violations = append(res.Violations, engine.V("call-sequence", "callee-mismatch", "function %s site %d: expected call of %s, recorded %q", m.Name, i, s.Name, cl.FunctionName))
				continue
			}
			wantStop := s.Pos.Col + utf8.RuneCountInString(s.Name)
			if cl.Position.StartLine != s.Pos.Line || cl.Position.StartLinePosition != s.Pos.Col || cl.Position.StopLinePosition != wantStop {
				kind := "column"
				if cl.Position.StartLine != s.Pos.Line {
					kind = "line"
				}
				res.Violations = append(res.Violations, engine.V("position", kind, "function %s call %s: recorded %d:%d-%d, callee identifier is at %d:%d-%d", m.Name, s.Name,
					cl.Position.StartLine, cl.Position.StartLinePosition, cl.Position.StopLinePosition, s.Pos.Line, s.Pos.Col, wantStop))
			}
			if s.CheckRecv && (cl.NodeName != s.RecvType || cl.Package != s.RecvPkg) {
				kind := "type"
				if cl.NodeName == s.RecvType {
					kind = "package"
				}
				res.Violations = append(res.Violations, engine.V("receiver", kind, "function %s call %s: recorded against %s.%s, receiver's declared type is %s.%s", m.Name, s.Name, cl.Package, cl.NodeName, s.RecvPkg, s.RecvType))
			}
		}
	}
	res.Outcome = out.String()
	return res
}

func init() {
	engine.Register(&engine.Spec{
		ID:    "C02",
		Title: "Recorded call sites are exactly the invocations written in the source",
		Rule: "X1 over a 3-file project (app.Svc under test, app.Helper, other.Tool): 1..3 methods (overload / constructor) x 1..3 statements each from 12 statement forms x 20 expression forms, " +
			"name-reuse scenarios (parameter then local, parameter/local shadowing a field, same local name in sibling methods), import-suffix collision, 12 layouts; deviation-bounded. " +
			"Every case has call sites (non-trivial). Distinct = distinct source text.",
		Assumptions: []string{
			"receiver clause checked only for implicit, field, parameter and local receivers whose declared type is a plain imported or project class (as the statement lists); this./static/chained/lambda-parameter receivers are not compared",
			"position: start line and [start,stop) rune columns of the callee identifier; StopLine is not compared (multi-line calls)",
			"method references, explicit constructor invocations and anonymous classes are outside the alphabet",
		},
		Sections: []engine.Section{{Name: "bodies", KQuick: 3, KThor: 4, Gen: c02Gen}, {Name: "bodies-through-coca-analysis", KQuick: 1, KThor: 2, Gen: c02GenCLI}},
	})
}
