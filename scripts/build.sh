#!/bin/bash
# Builds the explorer binary from the CURRENT /repo working tree with the generated verification hooks
# (build tag "verif", applied by `go build -overlay`; nothing is written under /repo).
# Prints the path of the binary. Cache key = content hash of every Go source involved, so an edited tree
# can never be served a stale overlay or binary.
# usage: build.sh [maporder]
set -euo pipefail
cd "$(dirname "$0")/.."
VROOT=$(pwd)
export GOFLAGS=-mod=mod GOPROXY=off GOSUMDB=off GOTOOLCHAIN=local
REPO=${VERIF_REPO:-/repo}
MODE=${1:-plain}
mkdir -p .work/cache bin
key=$( { find "$REPO" -name '*.go' -not -path '*/.git/*' -not -path '*/_fixtures/*' -print0 | sort -z | xargs -0 sha256sum; \
         sha256sum "$REPO/go.mod" "$REPO/go.sum"; \
         find "$VROOT/engine" "$VROOT/checks" "$VROOT/cmd" "$VROOT/javagen" -type f \( -name '*.go' -o -name '*.txt' \) -print0 | sort -z | xargs -0 sha256sum; \
         sha256sum "$VROOT/go.mod"; echo "$MODE $REPO"; \
         if [ -n "${VERIF_BASE_OVERLAY:-}" ]; then cat "$VERIF_BASE_OVERLAY"; python3 -c "import json,sys;[sys.stdout.write(open(v).read()) for v in json.load(open(sys.argv[1]))['Replace'].values()]" "$VERIF_BASE_OVERLAY"; fi; } | sha256sum | cut -c1-24)
dir=.work/cache/$key
if [ -x "$dir/mc" ]; then touch "$dir" 2>/dev/null || true; fi
if [ ! -x "$dir/mc" ]; then
  tmp=$(mktemp -d .work/cache/tmp.XXXXXX)
  trap 'rm -rf "$tmp"' EXIT
  # overlaygen itself is part of the framework; rebuild when its sources changed (cheap: build cache)
  go build -o "$tmp/overlaygen" ./engine/overlaygen >&2
  flags=""
  if [ "$MODE" = maporder ]; then flags="-maporder"; fi
  if [ -n "${VERIF_BASE_OVERLAY:-}" ]; then flags="$flags -base $VERIF_BASE_OVERLAY"; fi
  "$tmp/overlaygen" -repo "$REPO" -out "$tmp/ov" $flags >&2
  tags=verif
  if [ "$MODE" = maporder ]; then tags=verif,maporder; fi
  go build -tags "$tags" -overlay "$tmp/ov/overlay.json" -o "$tmp/mc" ./cmd/mc >&2
  rm -f "$tmp/overlaygen"
  if [ -e "$dir" ]; then rm -rf "$tmp"; else
    # overlay.json refers to $tmp paths: rewrite to the final location before publishing
    sed -i "s#$(pwd)/$tmp#$(pwd)/$dir#g; s#$tmp#$(pwd)/$dir#g" "$tmp/ov/overlay.json"
    mv "$tmp" "$dir" 2>/dev/null || rm -rf "$tmp"
  fi
  trap - EXIT
  # keep the cache small: newest 4 entries
  # (only entries not used for 45 minutes, so that concurrently running checks keep theirs)
  ls -1dt .work/cache/*/ 2>/dev/null | tail -n +5 | while read -r d; do
    if [ -n "$(find "$d" -maxdepth 0 -mmin +45 2>/dev/null)" ]; then rm -rf "$d"; fi
  done
fi
echo "$VROOT/$dir/mc"
