#!/bin/bash
# Run once after a fresh restore, offline: builds the framework from files on disk and warms the build cache.
set -euo pipefail
cd "$(dirname "$0")/.."
VROOT=$(pwd)
export GOFLAGS=-mod=mod GOPROXY=off GOSUMDB=off GOTOOLCHAIN=local
mkdir -p .work evidence replay
scripts/build.sh plain >/dev/null
echo "setup ok"
