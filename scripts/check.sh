#!/bin/bash
# usage: check.sh <property-id> <quick|thorough>   |   check.sh replay <path>
# exit 0: property held on everything explored (KNOWN-FINDING lines allowed)
# exit 1: "VIOLATION property=<id> replay=<path>" printed
# other : the harness itself failed (no verdict)
set -uo pipefail
cd "$(dirname "$0")/.."
VROOT=$(pwd)
export GOFLAGS=-mod=mod GOPROXY=off GOSUMDB=off GOTOOLCHAIN=local
export GIT_CONFIG_GLOBAL=/dev/null GIT_CONFIG_NOSYSTEM=1
mode=plain
if [ "${1:-}" = "C08" ]; then mode=maporder; fi
mc=$(scripts/build.sh $mode) || { echo "check.sh: build failed (no verdict)" >&2; exit 2; }
if [ "$mode" = maporder ]; then
  # the plain binary (real runtime map order) is the conformance reference for the rewritten one
  VERIF_PLAIN_MC=$(scripts/build.sh plain) || { echo "check.sh: build failed (no verdict)" >&2; exit 2; }
  export VERIF_PLAIN_MC
fi
export VERIF_TIER=${2:-quick}
if [ "${1:-}" = replay ]; then exec "$mc" replay "$2"; fi
exec "$mc" check "$1" "${2:-quick}"
