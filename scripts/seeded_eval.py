#!/usr/bin/env python3
"""Confirms a seeded change produced by a sub-agent and runs the property's check against it.

usage: seeded_eval.py <name> <property-id> <agent-outdir> [--thorough] [--no-verify]
  <agent-outdir> contains patch.diff, demo/, notes.md (written by the sub-agent, nothing from /verif).

Steps (all in scratch space; /repo itself is never modified - the change reaches the check through the
build overlay, exactly like the mutants):
  1. copy patch.diff, demo/ and notes.md to /verif/seeded/<name>/
  2. confirm in a fresh scratch worktree of /repo: the patch applies, the code builds, the repository's own
     tests still pass (known baseline failures excepted), the demonstration FAILS with the patch and PASSES
     without it
  3. run scripts/check.sh <id> quick (and thorough on request) with the patched files as overlay
  4. write /verif/seeded/<name>/meta.json
"""
import json, os, shutil, subprocess, sys, time, re

ROOT = os.path.dirname(os.path.dirname(os.path.abspath(__file__)))
REPO = "/repo"
ENV = dict(os.environ, GOFLAGS="-mod=mod", GOPROXY="off", GOSUMDB="off", GOTOOLCHAIN="local")
KNOWN = ("TestNewTodoApp", "TestMoveClassApp", "TestRenameMethodApp", "TestRemoveUnusedImportApp_Analysis")  # baseline failure + tests that race on git-checked-out fixtures


def sh(cmd, cwd=None, env=ENV, timeout=3600):
    r = subprocess.run(cmd, cwd=cwd, env=env, shell=isinstance(cmd, str), capture_output=True, text=True, errors="replace", timeout=timeout)
    return r.returncode, r.stdout, r.stderr


def failing_tests(out):
    bad = []
    for l in out.splitlines():
        if l.startswith("--- FAIL"):
            if not any(k in l for k in KNOWN):
                bad.append(l.strip())
        elif "[build failed]" in l or "[setup failed]" in l:
            bad.append(l.strip())
    return bad


def main():
    args = [a for a in sys.argv[1:] if not a.startswith("--")]
    flags = [a for a in sys.argv[1:] if a.startswith("--")]
    name, pid, src = args[0], args[1], args[2]
    dest = os.path.join(ROOT, "seeded", name)
    os.makedirs(dest, exist_ok=True)
    same = os.path.abspath(src) == os.path.abspath(dest)  # re-evaluation of a kept seed in place
    for f in ("patch.diff", "notes.md"):
        if not same and os.path.exists(os.path.join(src, f)):
            shutil.copy(os.path.join(src, f), os.path.join(dest, f))
    if not same and os.path.isdir(os.path.join(src, "demo")):
        shutil.rmtree(os.path.join(dest, "demo"), ignore_errors=True)
        shutil.copytree(os.path.join(src, "demo"), os.path.join(dest, "demo"))
    prev = {}
    if "--no-verify" in flags and os.path.exists(os.path.join(dest, "meta.json")):
        prev = json.load(open(os.path.join(dest, "meta.json")))  # keep the confirmation recorded by the verifying run
    meta = dict(name=name, property=pid, at=time.strftime("%Y-%m-%dT%H:%M:%S"), repo_head=sh("git rev-parse --short HEAD", cwd=REPO)[1].strip())
    for k in ("builds", "repo_tests_pass_with_change", "repo_tests_failing", "demo_placed", "demo_fails_with_change", "demo_passes_without_change", "demo_output_with_change", "confirmed", "confirmed_at_head", "widened", "note"):
        if k in prev:
            meta[k] = prev[k]
    if prev.get("repo_head") and "confirmed_at_head" not in meta and "confirmed" in prev:
        meta["confirmed_at_head"] = prev["repo_head"]
    patch = os.path.join(dest, "patch.diff")
    files = re.findall(r"^\+\+\+ b/(.+)$", open(patch).read(), re.M)
    meta["files"] = files
    wt = "/tmp/seedverify-" + name
    sh(["git", "-C", REPO, "worktree", "remove", "--force", wt])
    shutil.rmtree(wt, ignore_errors=True)
    rc, o, e = sh(["git", "-C", REPO, "worktree", "add", "-q", "--detach", wt, "HEAD"])
    if rc != 0:
        print("cannot create scratch worktree:", e); sys.exit(2)
    try:
        rc, o, e = sh(["git", "apply", patch], cwd=wt)
        if rc != 0:
            meta["confirmed"] = False
            meta["why"] = "patch does not apply to the current HEAD: " + e[:400]
            print(name, "PATCH DOES NOT APPLY"); json.dump(meta, open(os.path.join(dest, "meta.json"), "w"), indent=1); return
        if "--no-verify" not in flags:
            rc, o, e = sh("go build ./... 2>&1", cwd=wt)
            meta["builds"] = rc == 0
            rc, o, e = sh("go test -vet=off -count=1 ./... 2>&1", cwd=wt)
            bad = failing_tests(o)
            meta["repo_tests_pass_with_change"] = not bad
            meta["repo_tests_failing"] = bad[:10]
            # demonstration
            demo_files = []
            for base, _, fs in os.walk(os.path.join(dest, "demo")):
                for f in fs:
                    demo_files.append(os.path.join(base, f))
            placed = []
            demo_cmds = []
            for df in demo_files:
                head = open(df, errors="replace").read(600)
                m = re.search(r"(pkg|cmd|analysis|zz_seed_demo)[\w/\.\-]*", head)
                rel = None
                if df.endswith("_test.go"):
                    pm = re.search(r"^package\s+(\w+)", head, re.M)
                    pkgname = pm.group(1) if pm else ""
                    cands = []
                    for m2 in re.finditer(r"((?:pkg|cmd|analysis)(?:/[\w\-\.]+)*)", head):
                        d = m2.group(1).rstrip("/.")
                        if d.endswith(".go"):
                            d = os.path.dirname(d)
                        if os.path.isdir(os.path.join(wt, d)):
                            cands.append(d)
                    # the directory whose Go package is the demo's package (a directory named like it, or one
                    # whose files declare it)
                    def declares(d):
                        for fn in os.listdir(os.path.join(wt, d)):
                            if fn.endswith(".go") and not fn.endswith("_test.go"):
                                mm = re.search(r"^package\s+(\w+)", open(os.path.join(wt, d, fn), errors="replace").read(3000), re.M)
                                return bool(mm) and mm.group(1) == pkgname.replace("_test", "")
                        return False
                    good = [d for d in cands if declares(d)]
                    pick = good[0] if good else (cands[0] if cands else None)
                    if pick:
                        rel = os.path.join(pick, os.path.basename(df))
                if rel is None:
                    relp = os.path.relpath(df, os.path.join(dest, "demo"))
                    rel = relp if os.path.dirname(relp) else os.path.join("zz_seed_demo", relp)
                target = os.path.join(wt, rel)
                if os.path.isdir(os.path.dirname(target)) or not df.endswith("_test.go"):
                    os.makedirs(os.path.dirname(target), exist_ok=True)
                    shutil.copy(df, target)
                    placed.append(rel)
            meta["demo_placed"] = placed
            pkgs = sorted(set("./" + os.path.dirname(p) for p in placed if p.endswith("_test.go")))
            progs = sorted(set("./" + os.path.dirname(p) for p in placed if p.endswith(".go") and not p.endswith("_test.go")))
            def run_demo():
                ok = True
                outs = []
                for p in pkgs:
                    rc, o, e = sh("go test -vet=off -count=1 -run 'Seed|seed|Demo|demo|ZZ|Zz' %s 2>&1" % p, cwd=wt)
                    if "no tests to run" in o:
                        rc, o, e = sh("go test -vet=off -count=1 %s 2>&1" % p, cwd=wt)
                        rc = 1 if failing_tests(o) else 0
                    outs.append(o[-600:])
                    ok = ok and rc == 0
                for p in progs:
                    rc, o, e = sh("go run %s 2>&1" % p, cwd=wt)
                    outs.append(o[-600:])
                    ok = ok and rc == 0
                return ok, outs
            with_ok, with_out = run_demo()
            sh(["git", "apply", "-R", patch], cwd=wt)
            without_ok, without_out = run_demo()
            sh(["git", "apply", patch], cwd=wt)
            meta["demo_fails_with_change"] = not with_ok
            meta["demo_passes_without_change"] = without_ok
            meta["demo_output_with_change"] = with_out
            meta["confirmed"] = bool(meta.get("builds")) and meta["repo_tests_pass_with_change"] and (not with_ok) and without_ok and bool(pkgs or progs)
        # overlay from the patched files
        work = os.path.join(ROOT, ".work", "seeded", name)
        shutil.rmtree(work, ignore_errors=True)
        os.makedirs(work)
        repl = {}
        for f in files:
            if f == "/dev/null":
                continue
            tgt = os.path.join(work, f.replace("/", "__"))
            shutil.copy(os.path.join(wt, f), tgt)
            repl[os.path.join(REPO, f)] = tgt
        base = os.path.join(work, "overlay.json")
        json.dump({"Replace": repl}, open(base, "w"))
        tiers = ["quick"] + (["thorough"] if "--thorough" in flags else [])
        meta["checks"] = {}
        for tier in tiers:
            t0 = time.time()
            r = subprocess.run([os.path.join(ROOT, "scripts", "check.sh"), pid, tier], cwd=ROOT, env=dict(ENV, VERIF_BASE_OVERLAY=base), capture_output=True, text=True, errors="replace")
            viol = [l for l in r.stdout.splitlines() if l.startswith("VIOLATION property=")]
            meta["checks"][tier] = dict(exit=r.returncode, detected=(r.returncode == 1 and bool(viol)), violations=[v[:400] for v in viol][:6], wall_s=round(time.time() - t0, 1),
                                       stderr_tail=r.stderr[-300:] if r.returncode not in (0, 1) else "")
            if meta["checks"][tier]["detected"]:
                break
        det = any(c["detected"] for c in meta["checks"].values())
        meta["detected"] = det
        print("%-30s confirmed=%s detected=%s %s" % (name, meta.get("confirmed"), det, [v[:160] for c in meta["checks"].values() for v in c["violations"]][:2]))
    finally:
        sh(["git", "-C", REPO, "worktree", "remove", "--force", wt])
        shutil.rmtree(wt, ignore_errors=True)
    # restore evidence of the unchanged tree is the caller's business (evidence/ is rewritten by every run)
    json.dump(meta, open(os.path.join(dest, "meta.json"), "w"), indent=1)


if __name__ == "__main__":
    main()
