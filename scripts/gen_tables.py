#!/usr/bin/env python3
"""Regenerates the two generated tables of DESIGN.md (between the BEGIN/END markers):
  mutants  - from mutants/*.json + mutants/RESULTS.jsonl (last result per mutant)
  seeded   - from seeded/*/meta.json + notes.md
usage: gen_tables.py [--write]   (without --write the tables go to stdout)"""
import glob, json, os, re, sys

ROOT = os.path.dirname(os.path.dirname(os.path.abspath(__file__)))


def esc(s):
    return str(s).replace("|", "\\|").replace("\n", " ")


def mutants():
    res = {}
    p = os.path.join(ROOT, "mutants", "RESULTS.jsonl")
    if os.path.exists(p):
        for l in open(p):
            l = l.strip()
            if l:
                r = json.loads(l)
                res[r["mutant"]] = r
    rows = ["| mutant | file | what it changes | repository tests | quick check | failure classes reported |", "|---|---|---|---|---|---|"]
    n = det = 0
    for f in sorted(glob.glob(os.path.join(ROOT, "mutants", "*.json"))):
        name = os.path.basename(f)[:-5]
        m = json.load(open(f))
        r = res.get(name, {})
        n += 1
        det += 1 if r.get("status") == "DETECTED" else 0
        files = m.get("file") or ", ".join(x.get("file", "") for x in m.get("edits", []))
        rows.append("| %s | %s | %s | %s | %s | %s |" % (name, esc(os.path.basename(files)), esc(m.get("note", "")), "pass" if r.get("repo_tests_pass") else "?",
                                                     "%s (%s/%s runs)" % (r.get("status", "not run"), r.get("detected", "-"), r.get("repeats", "-")), esc(", ".join((r.get("classes") or [])[:3]))))
    rows.append("")
    rows.append("%d mutants, %d detected by the quick check in every run, 0 caught by the repository's own tests." % (n, det))
    return "\n".join(rows)


def change_line(notes):
    if not os.path.exists(notes):
        return ""
    txt = open(notes, errors="replace").read()
    m = re.search(r"^#+[^\n]*[Cc]hange[^\n]*\n+(.+?)(?:\n\s*\n|\n#)", txt, re.S | re.M)
    para = m.group(1) if m else txt[:400]
    para = re.sub(r"\s+", " ", para).strip()
    para = re.sub(r"^#+\s*(The\s+)?[Cc]hange\s*", "", para)
    return para[:230] + ("..." if len(para) > 230 else "")


def seeded():
    rows = ["| seeded change | files | change (from the sub-agent's notes) | confirmed (builds, repository tests pass, demonstration discriminates) | detected by quick check | first failure class |", "|---|---|---|---|---|---|"]
    n = conf = det = 0
    for f in sorted(glob.glob(os.path.join(ROOT, "seeded", "*", "meta.json"))):
        d = os.path.dirname(f)
        m = json.load(open(f))
        n += 1
        conf += 1 if m.get("confirmed") else 0
        det += 1 if m.get("detected") else 0
        cls = ""
        for tier in ("quick", "thorough"):
            for v in (m.get("checks", {}).get(tier, {}) or {}).get("violations", []):
                mm = re.search(r"class=(\S+)", v)
                if mm and not cls:
                    cls = mm.group(1)
        note = m.get("note", "")
        rows.append("| %s | %s | %s | %s | %s | %s |" % (m["name"], esc(", ".join(os.path.basename(x) for x in m.get("files", []))), esc(change_line(os.path.join(d, "notes.md"))),
                                                     ("yes" if m.get("confirmed") else "no") + (" - " + esc(note) if note else ""), "yes" if m.get("detected") else "no", esc(cls)))
    rows.append("")
    rows.append("%d seeded changes kept, %d confirmed at the current head, %d detected." % (n, conf, det))
    return "\n".join(rows)


def tiers():
    """quick figures from evidence/*.json (the last local run), thorough figures from the sweep log kept under
    runs/thorough-sweep.log (copied from the last `vp run` sweep)."""
    thor = {}
    lp = os.path.join(ROOT, "runs", "thorough-sweep.log")
    if os.path.exists(lp):
        for l in open(lp, errors="replace"):
            m = re.match(r"^(C\d\d) thorough: evaluations=(\d+) .*bound_completed=(\S+(?: \S+)?) exhaustive=(\w+) violations=(\d+) known=(\d+) wall=([\d.]+)s", l)
            if m:
                thor[m.group(1)] = m.groups()[1:]
    rows = ["| check | quick: evaluations | bound completed | exhaustive within the bound | wall | thorough: evaluations | bound completed | exhaustive | wall |", "|---|---|---|---|---|---|---|---|---|"]
    for f in sorted(glob.glob(os.path.join(ROOT, "evidence", "C*.json"))):
        e = json.load(open(f))
        cid = e["property_id"]
        c = e.get("coverage", {})
        t = thor.get(cid)
        rows.append("| %s | %s | %s | %s | %.0f s | %s |" % (cid, c.get("evaluations", "-"), c.get("bound_completed", "-"), c.get("exhaustive", "-"), e.get("wall_s", 0),
                                                    " | ".join([t[0], t[1], t[2], t[5] + " s"]) if t else "- | - | - | -"))
    return "\n".join(rows)


def main():
    tables = {"mutants": mutants(), "seeded": seeded(), "tiers": tiers()}
    if "--write" not in sys.argv:
        for k, v in tables.items():
            print("== " + k + "\n" + v + "\n")
        return
    p = os.path.join(ROOT, "DESIGN.md")
    s = open(p).read()
    for k, v in tables.items():
        b, e = "<!-- BEGIN:%s -->" % k, "<!-- END:%s -->" % k
        if b not in s:
            continue
        i, j = s.index(b), s.index(e)
        s = s[:i + len(b)] + "\n" + v + "\n" + s[j:]
    open(p, "w").write(s)


if __name__ == "__main__":
    main()
