NOT_CLAIMED = {}
claim("C03",
  "Every abstract call model within the bounds (all digraphs with self-loops on <=3 nodes (quick) / <=4 (thorough) x class distribution x root x lookup; all multigraphs on 2 nodes with quote/unresolved/external/overload options; all sparse 5-node multigraphs within 3/4 deviations; AnalysisByFiles with 0..2 APIs and DI maps) is executed against the real CallGraph.Analysis / AnalysisByFiles and compared with a reference reachability model: DOT well-formedness (strict reader + gographviz), soundness of every edge, completeness for the root's direct callees, exactness whenever the unfolded call tree fits the expansion budget measured from the implementation, per-API size = edges+1 and equality with single-API runs.",
  "Bounded: graphs beyond the sizes above are not explored. Budget is calibrated from the implementation. Reset hook (generated overlay) gives each case pristine package state and is validated against fresh processes each run; violations are confirmed twice in fresh processes.",
  "stateless bounded-exhaustive exploration (choice-tree DFS, full product + deviation bound) of the real implementation against a reference model",
  "DESIGN.md 4/C03")
claim("C04",
  "Every abstract call model within the bounds of C03 (all digraphs on <=3/4 nodes x distribution x target, 2-node multigraphs with multiplicity <=3 and quote/unresolved/external/overload options, sparse 5-node multigraphs within 3/4 deviations) is run through the real RCallGraph.Analysis; the map handed to the callback must be the exact inverse (multiset, once per call site, declared keys only) of the reference relation, the DOT must be well-formed (strict reader + gographviz), every edge must come from the map and lie on a caller chain ending at the target, every direct caller must be present.",
  "Bounded graph sizes; termination is observed per case with a 120 s watchdog and 600 s fresh-process confirmation, not proven. Reset hook validated against fresh processes each run.",
  "stateless bounded-exhaustive exploration (full product + deviation bound) of the real implementation against a reference inverse-relation model",
  "DESIGN.md 4/C04")
