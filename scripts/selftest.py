#!/usr/bin/env python3
"""Demonstrates detection: applies each registered mutant THROUGH THE BUILD OVERLAY (never edits /repo),
checks that the repository's own tests still pass on the mutant, runs the property's quick check and
requires a VIOLATION.

usage: selftest.py [-n REPEATS] [--skip-repo-tests] [id-or-mutant-name ...]
Mutants: /verif/mutants/<ID>-<name>.json = {"file": "<path under /repo>", "search": "...", "replace": "...", "note": "..."}
Results are appended to /verif/mutants/RESULTS.jsonl and summarised on stdout.
"""
import json, os, subprocess, sys, glob, time, hashlib

ROOT = os.path.dirname(os.path.dirname(os.path.abspath(__file__)))
REPO = os.environ.get("VERIF_REPO", "/repo")
ENV = dict(os.environ, GOFLAGS="-mod=mod", GOPROXY="off", GOSUMDB="off", GOTOOLCHAIN="local")


def main():
    args = sys.argv[1:]
    repeats = 2
    skip_tests = False
    sel = []
    i = 0
    while i < len(args):
        if args[i] == "-n":
            repeats = int(args[i + 1]); i += 2; continue
        if args[i] == "--skip-repo-tests":
            skip_tests = True; i += 1; continue
        sel.append(args[i]); i += 1
    files = sorted(glob.glob(os.path.join(ROOT, "mutants", "*.json")))
    results = []
    for f in files:
        name = os.path.basename(f)[:-5]
        pid = name.split("-")[0]
        if sel and not any(s == pid or s == name for s in sel):
            continue
        m = json.load(open(f))
        src_path = os.path.join(REPO, m["file"])
        src = open(src_path).read()
        if src.count(m["search"]) != 1:
            results.append(dict(mutant=name, property=pid, status="STALE", detail="search text occurs %d times" % src.count(m["search"])))
            print("%-50s STALE (search text occurs %d times)" % (name, src.count(m["search"])))
            continue
        work = os.path.join(ROOT, ".work", "mut", name)
        os.makedirs(work, exist_ok=True)
        mutated = os.path.join(work, os.path.basename(m["file"]))
        open(mutated, "w").write(src.replace(m["search"], m["replace"]))
        base = os.path.join(work, "overlay.json")
        json.dump({"Replace": {src_path: mutated}}, open(base, "w"))
        tests_ok = None
        if not skip_tests:
            t0 = time.time()
            r = subprocess.run(["go", "test", "-overlay", base, "-vet=off", "-count=1", "./..."], cwd=REPO, env=ENV, capture_output=True, text=True)
            failed = [l for l in r.stdout.splitlines() if l.startswith("--- FAIL") or l.startswith("FAIL")]
            # the baseline itself has one always-failing test (TestNewTodoApp) and two flaky refactor tests
            real = [l for l in failed if "TestNewTodoApp" not in l and "pkg/application/todo" not in l and l.strip() != "FAIL"
                    and "TestMoveClassApp" not in l and "TestRenameMethodApp" not in l and "refactor/moveclass" not in l and "refactor/rename\t" not in l
                    and "TestRemoveUnusedImportApp_Analysis" not in l and "refactor/unused\t" not in l]
            tests_ok = not real
            if not tests_ok:
                print("%-50s repository tests FAIL on this mutant (not a valid seeded change): %s" % (name, real[:3]))
                results.append(dict(mutant=name, property=pid, status="TESTS-FAIL", detail=real[:5]))
                continue
        detected = 0
        classes = set()
        wall = 0
        for k in range(repeats):
            t0 = time.time()
            r = subprocess.run([os.path.join(ROOT, "scripts", "check.sh"), pid, "quick"], cwd=ROOT, env=dict(ENV, VERIF_BASE_OVERLAY=base), capture_output=True, text=True)
            wall = time.time() - t0
            viol = [l for l in r.stdout.splitlines() if l.startswith("VIOLATION property=%s " % pid)]
            if r.returncode == 1 and viol:
                detected += 1
                for l in viol:
                    for part in l.split():
                        if part.startswith("class="):
                            classes.add(part[6:])
            elif r.returncode not in (0, 1):
                classes.add("HARNESS-EXIT-%d: %s" % (r.returncode, (r.stderr or "")[-300:]))
        status = "DETECTED" if detected == repeats else ("MISSED" if detected == 0 else "FLAKY")
        print("%-50s %s %d/%d (%.0fs) %s" % (name, status, detected, repeats, wall, sorted(classes)[:3]))
        results.append(dict(mutant=name, property=pid, status=status, detected=detected, repeats=repeats, repo_tests_pass=tests_ok, classes=sorted(classes), note=m.get("note", ""), wall_s=round(wall, 1)))
    with open(os.path.join(ROOT, "mutants", "RESULTS.jsonl"), "a") as fh:
        for r in results:
            r["at"] = time.strftime("%Y-%m-%dT%H:%M:%S")
            fh.write(json.dumps(r) + "\n")
    bad = [r for r in results if r["status"] not in ("DETECTED",)]
    print("\n%d mutants, %d detected, %d not" % (len(results), len(results) - len(bad), len(bad)))
    sys.exit(1 if bad else 0)


if __name__ == "__main__":
    main()
